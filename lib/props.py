"""Per-property configuration of the simulation checks (budgets are run counts, not seconds)."""

COMMON_ASSUME = [
    "sampling, not proof: a clean batch is evidence over the seeds explored",
    "run i of a property is a pure function of (VERIF_SEED, i) and the code under test; `check selftest-determinism` guards this",
]

PROPS = {
    "C10": {
        "level": "fault_enumeration",
        "runs": {"quick": 40000, "thorough": 500000},
        "selftest_runs": 6000,
        "needs_real": False,
        "rule": (
            "run i < 4164 enumerates every import graph over N<=3 modules (each ordered pair incl. self loops, one optional missing "
            "import per module); beyond that a seeded generator draws graphs over 1..6 modules (DAG, chain, dense DAG, DAG+back edge, random; "
            "subdirectories, 4 relative spellings per import, duplicate and qualified/unqualified use lines, missing targets). Each run executes "
            "module::load on the graph, on a permuted/respelled variant, and on both under a drawn fault plan (load error, file vanished after "
            "is_valid, is_valid flap, parse error, compile error) followed by a fault-free recovery load. evaluations = module::load executions. "
            "A run is non-trivial when >=2 modules are reachable from main; distinct = distinct digests of (verdict, full loader call history, faults fired) over all its executions."
        ),
        "real": ["oal_compiler::module::load", "oal_model::locator::Locator::join", "oal_syntax::parse", "oal_compiler::compile::compile"],
        "stub": ["file store (in-memory map behind the public Loader<E> trait)", "fault plan"],
        "assumptions": COMMON_ASSUME + [
            "module bodies are the generator's fixed shape (one object declaration referencing every imported module's declaration)",
            "under a fired load/parse/compile fault the injected error itself must be returned; under an is_valid flap either that import or a reachable cycle may be reported",
        ],
    },
    "C06": {
        "level": "exploration",
        "runs": {"quick": 600, "thorough": 30000},
        "selftest_runs": 300,
        "needs_real": True,
        "rule": (
            "each run draws one accepted multi-module program (generator biased towards every unordered-map site: examples maps with 2-6 entries, "
            "several modules, @references, ranges, multi-parameter functions) and compiles it to YAML under 6 (thorough: 8) in-process environments "
            "drawn from {fresh thread with a chosen std hash seed, thread reused after 1-5 compilations of other programs, second compiler thread alive}; "
            "every 8th run additionally executes the real oal-cli 4 (thorough: 6) times in fresh processes under LD_PRELOAD-pinned (hash seed, wall clock) "
            "pairs with ASLR off plus unpinned runs. Oracle: byte equality of all documents of a run (per tier). evaluations = compilations executed. "
            "non-trivial = accepted program with a multi-entry examples map, several modules or an @reference; distinct = distinct (sources, output digests)."
        ),
        "real": ["whole pipeline: oal_syntax::parse, module::load, compile, eval, oal_openapi::Builder, serde_yaml output", "real oal-cli binary (process tier)"],
        "stub": ["libc getrandom (in-process symbol / LD_PRELOAD)", "CLOCK_REALTIME (LD_PRELOAD)", "ASLR (setarch -R)", "in-memory Loader for the in-process tier"],
        "assumptions": COMMON_ASSUME + [
            "in-process runs cannot pin address-space layout (foldhash inside string-interner mixes it in, lookup-only today); the unpinned process runs are the catch-all",
        ],
    },
    "C15": {
        "level": "exploration",
        "runs": {"quick": 10000, "thorough": 400000},
        "selftest_runs": 1500,
        "needs_real": True,
        "validate_runs": {"quick": 48, "thorough": 400},
        "rule": (
            "each run draws a workspace of 1-4 generated modules on a tmpfs scratch folder and a history of <=60 client events: a chain of 1-6 target states "
            "(re-laid-out program, error-injected program at one of 7 phases, another program, back to base) realised as didOpen / incremental didChange "
            "(single diff, chunked delete+insert, typing, full replace; 1-4 changes per notification; positions sometimes beyond end of line / file; "
            "multi-byte trivia; LF or CRLF per file) / save / didClose, with idle-timer firings (per-run probability 0, 0.1 or 0.5 after each message), "
            "definition / references / prepareRename / rename requests, closed rename loops, opens and closes of unrelated files and folder remove/add interleaved "
            "from the schedule stream, under a per-run std hash seed. The real main_loop runs single-threaded; at every request, rename loop and checkpoint "
            "a fresh server is handed the client's current texts and its published diagnostics and answers must equal the history server's; the server's "
            "document copies are compared with the client's buffers after every notification; the server must stay alive. evaluations = history executions + fresh-server executions. "
            "non-trivial = history with >=1 didChange that was not discarded; distinct = distinct digests of the full message transcript."
        ),
        "real": ["main_loop, refresh, notify (oal-lsp.rs, included source)", "RequestDispatcher/NotificationDispatcher", "all four handlers", "Workspace, Folder, Config (real oal.toml)", "DefaultFileSystem on tmpfs", "unicode conversions", "whole compiler pipeline"],
        "stub": ["lsp-server stdio threads and framing (Connection::memory()) - except in the validation batch, which replays the same histories against the real oal-lsp process over stdio pipes and requires identical verdicts and transcripts", "initialize handshake (simulated runs)", "the 1000 ms timer (decided by the simulator at select!)", "the editor (client model)", "std hash seed (interposed getrandom)"],
        "assumptions": COMMON_ASSUME + [
            "client is protocol-legal and well-formed: no malformed JSON, no request for a document that neither is open nor exists; it may send bursts of messages without waiting for the server",
            "main_loop runs once per simulated server on a thread that is parked at select! whenever the simulator runs (exactly one of the two executes at a time; the simulator decides which); the server blocks nowhere else",
            "a history whose final texts crash the refresh of a *fresh* server too is discarded and counted (skipped_pipeline_crash): that is C01/C04 territory",
        ],
    },
    "C17": {
        "level": "exploration",
        "runs": {"quick": 3000, "thorough": 100000},
        "selftest_runs": 600,
        "needs_real": True,
        "validate_runs": {"quick": 16, "thorough": 120},
        "rule": (
            "histories as in C15 (same schedule, hash-seed and edit space, no folder events) whose plan passes through renderings of generated multi-module programs; "
            "whenever the client's buffers+disk equal such a rendering that the real compiler accepts, a semantic checkpoint sends, for every identifier occurrence "
            "(first/middle/last character in turn), definition and references to the *history* server - half of the time while it is still stale - and checks them against the generator's own "
            "binding table: use -> one location in the binder's module containing the binder's name inside the binder's statement; declaration name or use bound to a declaration -> exactly "
            "the uses bound to it in all modules; every returned reference, fed back to definition, designates the binder (also for parameters and rec binders); "
            "6 positions per module outside identifiers -> empty answers. evaluations = history + fresh-server executions; non-trivial = run with >=1 semantic checkpoint; distinct = distinct transcripts."
        ),
        "real": ["as C15; handlers::go_to_definition / references / find_references / syntax_at / node_location", "resolve.rs via the real compile"],
        "stub": ["as C15", "reference model: the generator's lexical resolver and binding table (shares no code with resolve.rs/env.rs)"],
        "assumptions": COMMON_ASSUME + [
            "semantic oracles are as wide as the generator's fragment: unique qualifier per module, no declaration named like an unqualified import or built-in, distinct path variables, single folder",
            "positions whose answer the statement does not fix (qualifier half of m.f, a binder's own binding occurrence, declaration names for definition, built-ins) are sent and checked for liveness only",
        ],
    },
    "C18": {
        "level": "exploration",
        "runs": {"quick": 2500, "thorough": 100000},
        "selftest_runs": 600,
        "needs_real": True,
        "validate_runs": {"quick": 16, "thorough": 120},
        "rule": (
            "histories as in C17; at each semantic checkpoint prepareRename is sent at every identifier occurrence and at blank positions; wherever a range is offered, rename to a fresh name "
            "(same @ sigil) is sent to the history server and its WorkspaceEdit is checked: valid ranges, pairwise non-overlapping, each covering exactly the old name, and the edited sources are "
            "compiled in-process and must be accepted and emit the same document (hash-* names canonicalised; for @references with the component name substituted back). At one occurrence per "
            "checkpoint the loop is closed for real (edits applied to the client's buffers, sent back as didChange) and history = fresh is checked afterwards. The server must survive every request. "
            "evaluations = history + fresh-server executions; non-trivial = run with >=1 semantic checkpoint; distinct = distinct transcripts."
        ),
        "real": ["as C15; handlers::prepare_rename / rename / rename_variable / rename_qualifier", "in-process pipeline for the compile-equivalence oracle"],
        "stub": ["as C15", "reference model: binding table (used to localise failures; the verdict is compile equivalence as the statement says)"],
        "assumptions": COMMON_ASSUME + [
            "new names are fresh (zz_fresh<n>) and keep the @ sigil of the old name",
            "semantic oracles are as wide as the generator's fragment",
        ],
    },
    "C13": {
        "level": "fault_enumeration",
        "runs": {"quick": 1000, "thorough": 60000},
        "selftest_runs": 300,
        "needs_real": True,
        "rule": (
            "each run draws sources (1-3 generated modules; in half of the runs an error injected at the lexical, syntax, import, resolution, type, cycle or evaluation phase), a configuration "
            "(options / config file / config file with the target overridden by an option; with or without a base document; target absent or pre-filled with a sentinel) and executes the real oal-cli "
            "in a private tmpfs directory under LD_PRELOAD (pinned hash seed and clock, ASLR off, every open/read/write/close on the directory traced): once fault-free, then once under one fault drawn "
            "from the fault-free trace: short read, EINTR on read or write, short write (must be absorbed: same exit status and target bytes); EIO on read, ENOENT/EISDIR/EMFILE/EIO on open, ENOSPC after n bytes of the "
            "target, target is a directory or /dev/full, a source replaced by a directory, non-UTF-8 source, malformed base (exit 0 is a violation); _exit at the k-th traced call; a source whose content "
            "differs between its two opens. Oracles: exit 0 <=> the in-process pipeline accepts the sources; on exit 0 the target is a complete document opened for writing once and after the last input read; "
            "on a source error exit != 0, target byte-identical to the sentinel / still absent, never opened for writing, stderr non-empty and naming a source locator; wasm (single module, no base) fails "
            "exactly when the CLI fails and otherwise emits the same document; a simulated language server on the same directory, after a drawn open/close/idle history, has >=1 outstanding diagnostic "
            "exactly when the CLI fails. evaluations = process executions + LSP leg; non-trivial = the CLI process ran; distinct = distinct (sources, exits, traces, document)."
        ),
        "real": ["the oal-cli binary (guard off) in a real process on a real kernel file system (tmpfs)", "oal_wasm::compile (native build)", "LSP server loop as in C15 for the agreement clause"],
        "stub": ["libc open/open64/openat/read/write/close/getrandom/clock_gettime via LD_PRELOAD (faults, trace, pinned seed and clock)", "ASLR (setarch -R)", "lsp-server transport as in C15"],
        "assumptions": COMMON_ASSUME + [
            "'located in the sources' is read as: stderr contains the locator of a source file, required for syntax/compile/evaluation errors (import and cycle errors print a message with the import's locator)",
            "after a hard I/O fault only 'exit 0 with an incomplete target' and 'source error => target untouched' are judged; a torn target after a failed write is not held against the program",
            "oal-cli is single-threaded, so its traced call sequence is a pure function of inputs, plan and pinned environment",
        ],
    },
}
