"""Per-property configuration of the simulation checks (budgets are run counts, not seconds)."""

COMMON_ASSUME = [
    "sampling, not proof: a clean batch is evidence over the seeds explored",
    "run i of a property is a pure function of (VERIF_SEED, i) and the code under test; `check selftest-determinism` guards this",
]

PROPS = {
    "C10": {
        "level": "fault_enumeration",
        "runs": {"quick": 12000, "thorough": 500000},
        "selftest_runs": 6000,
        "needs_real": False,
        "rule": (
            "run i < 4164 enumerates every import graph over N<=3 modules (each ordered pair incl. self loops, one optional missing "
            "import per module); beyond that a seeded generator draws graphs over 1..6 modules (DAG, chain, dense DAG, DAG+back edge, random; "
            "subdirectories, 4 relative spellings per import, duplicate and qualified/unqualified use lines, missing targets). Each run executes "
            "module::load on the graph, on a permuted/respelled variant, and on both under a drawn fault plan (load error, file vanished after "
            "is_valid, is_valid flap, parse error, compile error) followed by a fault-free recovery load. evaluations = module::load executions. "
            "A run is non-trivial when >=2 modules are reachable from main; distinct = distinct digests of (verdict, full loader call history, faults fired) over all its executions."
        ),
        "real": ["oal_compiler::module::load", "oal_model::locator::Locator::join", "oal_syntax::parse", "oal_compiler::compile::compile"],
        "stub": ["file store (in-memory map behind the public Loader<E> trait)", "fault plan"],
        "assumptions": COMMON_ASSUME + [
            "module bodies are the generator's fixed shape (one object declaration referencing every imported module's declaration)",
            "under a fired load/parse/compile fault the injected error itself must be returned; under an is_valid flap either that import or a reachable cycle may be reported",
        ],
    },
    "C06": {
        "level": "exploration",
        "runs": {"quick": 400, "thorough": 30000},
        "selftest_runs": 300,
        "needs_real": True,
        "rule": (
            "each run draws one accepted multi-module program (generator biased towards every unordered-map site: examples maps with 2-6 entries, "
            "several modules, @references, ranges, multi-parameter functions) and compiles it to YAML under 6 (thorough: 8) in-process environments "
            "drawn from {fresh thread with a chosen std hash seed, thread reused after 1-5 compilations of other programs, second compiler thread alive}; "
            "every 8th run additionally executes the real oal-cli 4 (thorough: 6) times in fresh processes under LD_PRELOAD-pinned (hash seed, wall clock) "
            "pairs with ASLR off plus unpinned runs. Oracle: byte equality of all documents of a run (per tier). evaluations = compilations executed. "
            "non-trivial = accepted program with a multi-entry examples map, several modules or an @reference; distinct = distinct (sources, output digests)."
        ),
        "real": ["whole pipeline: oal_syntax::parse, module::load, compile, eval, oal_openapi::Builder, serde_yaml output", "real oal-cli binary (process tier)"],
        "stub": ["libc getrandom (in-process symbol / LD_PRELOAD)", "CLOCK_REALTIME (LD_PRELOAD)", "ASLR (setarch -R)", "in-memory Loader for the in-process tier"],
        "assumptions": COMMON_ASSUME + [
            "in-process runs cannot pin address-space layout (foldhash inside string-interner mixes it in, lookup-only today); the unpinned process runs are the catch-all",
        ],
    },
}
