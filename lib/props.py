"""Per-property configuration of the simulation checks (budgets are run counts, not seconds)."""

COMMON_ASSUME = [
    "sampling, not proof: a clean batch is evidence over the seeds explored",
    "run i of a property is a pure function of (VERIF_SEED, i) and the code under test; `check selftest-determinism` guards this",
]

PROPS = {
    "C10": {
        "level": "fault_enumeration",
        "runs": {"quick": 12000, "thorough": 500000},
        "selftest_runs": 6000,
        "needs_real": False,
        "rule": (
            "run i < 4164 enumerates every import graph over N<=3 modules (each ordered pair incl. self loops, one optional missing "
            "import per module); beyond that a seeded generator draws graphs over 1..6 modules (DAG, chain, dense DAG, DAG+back edge, random; "
            "subdirectories, 4 relative spellings per import, duplicate and qualified/unqualified use lines, missing targets). Each run executes "
            "module::load on the graph, on a permuted/respelled variant, and on both under a drawn fault plan (load error, file vanished after "
            "is_valid, is_valid flap, parse error, compile error) followed by a fault-free recovery load. evaluations = module::load executions. "
            "A run is non-trivial when >=2 modules are reachable from main; distinct = distinct digests of (verdict, full loader call history, faults fired) over all its executions."
        ),
        "real": ["oal_compiler::module::load", "oal_model::locator::Locator::join", "oal_syntax::parse", "oal_compiler::compile::compile"],
        "stub": ["file store (in-memory map behind the public Loader<E> trait)", "fault plan"],
        "assumptions": COMMON_ASSUME + [
            "module bodies are the generator's fixed shape (one object declaration referencing every imported module's declaration)",
            "under a fired load/parse/compile fault the injected error itself must be returned; under an is_valid flap either that import or a reachable cycle may be reported",
        ],
    },
    "C06": {
        "level": "exploration",
        "runs": {"quick": 400, "thorough": 30000},
        "selftest_runs": 300,
        "needs_real": True,
        "rule": (
            "each run draws one accepted multi-module program (generator biased towards every unordered-map site: examples maps with 2-6 entries, "
            "several modules, @references, ranges, multi-parameter functions) and compiles it to YAML under 6 (thorough: 8) in-process environments "
            "drawn from {fresh thread with a chosen std hash seed, thread reused after 1-5 compilations of other programs, second compiler thread alive}; "
            "every 8th run additionally executes the real oal-cli 4 (thorough: 6) times in fresh processes under LD_PRELOAD-pinned (hash seed, wall clock) "
            "pairs with ASLR off plus unpinned runs. Oracle: byte equality of all documents of a run (per tier). evaluations = compilations executed. "
            "non-trivial = accepted program with a multi-entry examples map, several modules or an @reference; distinct = distinct (sources, output digests)."
        ),
        "real": ["whole pipeline: oal_syntax::parse, module::load, compile, eval, oal_openapi::Builder, serde_yaml output", "real oal-cli binary (process tier)"],
        "stub": ["libc getrandom (in-process symbol / LD_PRELOAD)", "CLOCK_REALTIME (LD_PRELOAD)", "ASLR (setarch -R)", "in-memory Loader for the in-process tier"],
        "assumptions": COMMON_ASSUME + [
            "in-process runs cannot pin address-space layout (foldhash inside string-interner mixes it in, lookup-only today); the unpinned process runs are the catch-all",
        ],
    },
    "C15": {
        "level": "exploration",
        "runs": {"quick": 4000, "thorough": 400000},
        "selftest_runs": 1500,
        "needs_real": False,
        "rule": (
            "each run draws a workspace of 1-4 generated modules on a tmpfs scratch folder and a history of <=60 client events: a chain of 1-6 target states "
            "(re-laid-out program, error-injected program at one of 7 phases, another program, back to base) realised as didOpen / incremental didChange "
            "(single diff, chunked delete+insert, typing, full replace; 1-4 changes per notification; positions sometimes beyond end of line / file; "
            "multi-byte trivia; LF or CRLF per file) / save / didClose, with idle-timer firings (per-run probability 0, 0.1 or 0.5 after each message), "
            "definition / references / prepareRename / rename requests, closed rename loops, opens and closes of unrelated files and folder remove/add interleaved "
            "from the schedule stream, under a per-run std hash seed. The real main_loop runs single-threaded; at every request, rename loop and checkpoint "
            "a fresh server is handed the client's current texts and its published diagnostics and answers must equal the history server's; the server's "
            "document copies are compared with the client's buffers after every notification; the server must stay alive. evaluations = history executions + fresh-server executions. "
            "non-trivial = history with >=1 didChange that was not discarded; distinct = distinct digests of the full message transcript."
        ),
        "real": ["main_loop, refresh, notify (oal-lsp.rs, included source)", "RequestDispatcher/NotificationDispatcher", "all four handlers", "Workspace, Folder, Config (real oal.toml)", "DefaultFileSystem on tmpfs", "unicode conversions", "whole compiler pipeline"],
        "stub": ["lsp-server stdio threads and framing (Connection::memory())", "initialize handshake", "the 1000 ms timer (decided by the simulator at select!)", "the editor (client model)", "std hash seed (interposed getrandom)"],
        "assumptions": COMMON_ASSUME + [
            "client is protocol-legal and well-formed: no malformed JSON, no lone CR, no request for a document that neither is open nor exists",
            "main_loop keeps no state across iterations outside GlobalState (the simulator pauses it by unwinding at select! and re-enters it)",
            "a history whose final texts crash the refresh of a *fresh* server too is discarded and counted (skipped_pipeline_crash): that is C01/C04 territory",
        ],
    },
}
