#!/bin/bash
# verify_seed.sh <worktree> <patch> <demo> [<rs-dest-relative-to-worktree> <cargo test args...>]
# Confirms: patch applies, builds, existing suite passes, demo FAILS with the patch and PASSES without.
set -u
WT=$1; PATCH=$2; DEMO=$3; shift 3
RSDEST=${1:-}; [ $# -gt 0 ] && shift
run_demo() {
  case "$DEMO" in
    *.sh) (cd $WT && bash $DEMO "$@") ;;
    *.py) (cd $WT && python3 $DEMO "$@") ;;
    *.rs) mkdir -p $(dirname $WT/$RSDEST); cp $DEMO $WT/$RSDEST; (cd $WT && cargo test --offline "$@" 2>&1 | tail -15; r=${PIPESTATUS[0]}; rm -f $WT/$RSDEST; exit $r) ;;
  esac
}
cd $WT && git checkout -q -- . && git clean -fdq
git apply $PATCH || { echo "RESULT apply=FAIL"; exit 1; }
cargo build --workspace --offline >/tmp/vs-build.log 2>&1; B=$?
cargo test --workspace --offline >/tmp/vs-test.log 2>&1; T=$?
PASSED=$(grep -E "^test result" /tmp/vs-test.log | awk '{p+=$4; f+=$6} END {print p "/" f}')
run_demo "$@" >/tmp/vs-demo-with.log 2>&1; DW=$?
git checkout -q -- . && git clean -fdq
cargo build --workspace --offline >/dev/null 2>&1
run_demo "$@" >/tmp/vs-demo-without.log 2>&1; DO=$?
git checkout -q -- . && git clean -fdq
echo "RESULT build=$B tests_exit=$T passed/failed=$PASSED demo_with_patch_exit=$DW demo_without_exit=$DO"
tail -5 /tmp/vs-demo-with.log
