/* faultlib.so — LD_PRELOAD seam for the *real* oal-cli / oal-lsp binaries.
 *
 *  S2  getrandom()            -> bytes derived from VERIF_HASH_SEED (std's HashMap keys)
 *  S3  clock_gettime(REALTIME)-> VERIF_FAKE_TIME seconds
 *  S4  open/open64/openat/read/write/close on paths under VERIF_FS_ROOT:
 *        one trace line per call to fd VERIF_TRACE_FD (or file VERIF_TRACE),
 *        faults from VERIF_FAULTS, a ';'-separated plan of
 *           <op>:<path-suffix>:<nth>:<action>[:<arg>]
 *        op     = open | read | write
 *        nth    = 0-based index of that op on that path
 *        action = eintr | short (arg = max bytes) | eio | enoent | eisdir | emfile |
 *                 enospc (arg = bytes accepted before failing) | exit (arg = status)
 *      and VERIF_CRASH_AT=<k>: _exit(137) at the k-th intercepted call (0-based).
 *  All variables unset = pass-through. Single-threaded clients only (oal-cli is).
 */
#define _GNU_SOURCE
#include <dlfcn.h>
#include <errno.h>
#include <fcntl.h>
#include <stdarg.h>
#include <stdint.h>
#include <stdio.h>
#include <stdlib.h>
#include <string.h>
#include <sys/syscall.h>
#include <sys/types.h>
#include <time.h>
#include <unistd.h>

#define MAXFD 256
#define MAXPLAN 32
#define MAXPATH 32

static int inited;
static int have_seed; static uint64_t hash_seed; static uint64_t rnd_ctr;
static int have_time; static long fake_time;
static const char *fs_root; static size_t fs_root_len;
static int trace_fd = -1;
static long crash_at = -1; static long ncalls;
static char *fd_path[MAXFD];

struct plan { char op[8]; char path[128]; long nth; char action[12]; long arg; int fired; };
static struct plan plans[MAXPLAN]; static int nplans;
struct ctr { char path[160]; long n[3]; };
static struct ctr ctrs[MAXPATH]; static int nctrs;

static int (*real_open)(const char *, int, ...);
static int (*real_open64)(const char *, int, ...);
static int (*real_openat)(int, const char *, int, ...);
static ssize_t (*real_read)(int, void *, size_t);
static ssize_t (*real_write)(int, const void *, size_t);
static int (*real_close)(int);
static int (*real_clock_gettime)(clockid_t, struct timespec *);

static uint64_t splitmix(uint64_t *x) {
  uint64_t z = (*x += 0x9E3779B97F4A7C15ULL);
  z = (z ^ (z >> 30)) * 0xBF58476D1CE4E5B9ULL;
  z = (z ^ (z >> 27)) * 0x94D049BB133111EBULL;
  return z ^ (z >> 31);
}

static void init(void) {
  if (inited) return;
  inited = 1;
  real_open = dlsym(RTLD_NEXT, "open");
  real_open64 = dlsym(RTLD_NEXT, "open64");
  real_openat = dlsym(RTLD_NEXT, "openat");
  real_read = dlsym(RTLD_NEXT, "read");
  real_write = dlsym(RTLD_NEXT, "write");
  real_close = dlsym(RTLD_NEXT, "close");
  real_clock_gettime = dlsym(RTLD_NEXT, "clock_gettime");
  const char *s;
  if ((s = getenv("VERIF_HASH_SEED")) && *s) { have_seed = 1; hash_seed = strtoull(s, 0, 10); }
  if ((s = getenv("VERIF_FAKE_TIME")) && *s) { have_time = 1; fake_time = strtol(s, 0, 10); }
  if ((s = getenv("VERIF_FS_ROOT")) && *s) { fs_root = strdup(s); fs_root_len = strlen(fs_root); }
  if ((s = getenv("VERIF_CRASH_AT")) && *s) crash_at = strtol(s, 0, 10);
  if ((s = getenv("VERIF_TRACE")) && *s) trace_fd = real_open(s, O_WRONLY | O_CREAT | O_APPEND | O_CLOEXEC, 0644);
  if ((s = getenv("VERIF_FAULTS")) && *s) {
    char *copy = strdup(s), *save = 0;
    for (char *item = strtok_r(copy, ";", &save); item && nplans < MAXPLAN; item = strtok_r(0, ";", &save)) {
      struct plan *p = &plans[nplans];
      char *f[5] = {0, 0, 0, 0, 0}; int k = 0; char *sv2 = 0;
      for (char *q = strtok_r(item, ":", &sv2); q && k < 5; q = strtok_r(0, ":", &sv2)) f[k++] = q;
      if (k < 4) continue;
      snprintf(p->op, sizeof p->op, "%s", f[0]);
      snprintf(p->path, sizeof p->path, "%s", f[1]);
      p->nth = strtol(f[2], 0, 10);
      snprintf(p->action, sizeof p->action, "%s", f[3]);
      p->arg = f[4] ? strtol(f[4], 0, 10) : 0;
      nplans++;
    }
    free(copy);
  }
}

static void trace(const char *fmt, ...) {
  if (trace_fd < 0) return;
  char buf[512]; va_list ap; va_start(ap, fmt);
  int n = vsnprintf(buf, sizeof buf, fmt, ap); va_end(ap);
  if (n > (int)sizeof buf) n = sizeof buf;
  real_write(trace_fd, buf, n);
}

static int tracked(const char *path) { return fs_root && path && strncmp(path, fs_root, fs_root_len) == 0; }

static void tick(void) {
  if (crash_at >= 0 && ncalls == crash_at) { trace("crash call=%ld\n", ncalls); _exit(137); }
  ncalls++;
}

static long bump(const char *path, int op) {
  for (int i = 0; i < nctrs; i++) if (!strcmp(ctrs[i].path, path)) return ctrs[i].n[op]++;
  if (nctrs < MAXPATH) { snprintf(ctrs[nctrs].path, sizeof ctrs[nctrs].path, "%s", path); ctrs[nctrs].n[op] = 1; nctrs++; }
  return 0;
}

static struct plan *find_plan(const char *op, int opi, const char *path) {
  long nth = bump(path, opi);
  size_t pl = strlen(path);
  for (int i = 0; i < nplans; i++) {
    struct plan *p = &plans[i];
    size_t sl = strlen(p->path);
    if (strcmp(p->op, op) || p->nth != nth || sl > pl || strcmp(path + pl - sl, p->path)) continue;
    p->fired = 1;
    return p;
  }
  return 0;
}

static int open_common(const char *path, int flags, mode_t mode, int which, int dirfd) {
  init();
  if (!tracked(path)) {
    if (which == 2) return real_openat(dirfd, path, flags, mode);
    return which == 1 ? real_open64(path, flags, mode) : real_open(path, flags, mode);
  }
  tick();
  const char *rel = path + fs_root_len;
  struct plan *p = find_plan("open", 0, path);
  if (p && !strcmp(p->action, "alt")) {
    char alt[512]; snprintf(alt, sizeof alt, "%s.alt", path);
    int fd = real_open(alt, flags, mode);
    trace("open %s flags=r -> alt %s\n", rel, fd >= 0 ? "ok" : "fail");
    if (fd >= 0 && fd < MAXFD) { free(fd_path[fd]); fd_path[fd] = strdup(path); }
    return fd;
  }
  if (p) {
    int e = !strcmp(p->action, "enoent") ? ENOENT : !strcmp(p->action, "eisdir") ? EISDIR : !strcmp(p->action, "emfile") ? EMFILE : !strcmp(p->action, "eintr") ? EINTR : EIO;
    if (!strcmp(p->action, "exit")) { trace("exit open %s\n", rel); _exit((int)p->arg); }
    trace("open %s flags=%s%s%s -> fault %s\n", rel, (flags & O_ACCMODE) == O_RDONLY ? "r" : "w", flags & O_CREAT ? "c" : "", flags & O_TRUNC ? "t" : "", p->action);
    errno = e; return -1;
  }
  int fd = which == 2 ? real_openat(dirfd, path, flags, mode) : which == 1 ? real_open64(path, flags, mode) : real_open(path, flags, mode);
  int e = errno;
  trace("open %s flags=%s%s%s -> %s\n", rel, (flags & O_ACCMODE) == O_RDONLY ? "r" : "w", flags & O_CREAT ? "c" : "", flags & O_TRUNC ? "t" : "", fd >= 0 ? "ok" : strerror(e));
  if (fd >= 0 && fd < MAXFD) { free(fd_path[fd]); fd_path[fd] = strdup(path); }
  errno = e; return fd;
}

int open(const char *path, int flags, ...) {
  mode_t mode = 0; if (flags & (O_CREAT | O_TMPFILE)) { va_list ap; va_start(ap, flags); mode = va_arg(ap, mode_t); va_end(ap); }
  return open_common(path, flags, mode, 0, 0);
}
int open64(const char *path, int flags, ...) {
  mode_t mode = 0; if (flags & (O_CREAT | O_TMPFILE)) { va_list ap; va_start(ap, flags); mode = va_arg(ap, mode_t); va_end(ap); }
  return open_common(path, flags, mode, 1, 0);
}
int openat(int dirfd, const char *path, int flags, ...) {
  mode_t mode = 0; if (flags & (O_CREAT | O_TMPFILE)) { va_list ap; va_start(ap, flags); mode = va_arg(ap, mode_t); va_end(ap); }
  return open_common(path, flags, mode, 2, dirfd);
}

ssize_t read(int fd, void *buf, size_t n) {
  init();
  if (fd < 0 || fd >= MAXFD || !fd_path[fd]) return real_read(fd, buf, n);
  tick();
  const char *rel = fd_path[fd] + fs_root_len;
  struct plan *p = find_plan("read", 1, fd_path[fd]);
  if (p) {
    if (!strcmp(p->action, "eintr")) { trace("read %s -> EINTR\n", rel); errno = EINTR; return -1; }
    if (!strcmp(p->action, "eio")) { trace("read %s -> EIO\n", rel); errno = EIO; return -1; }
    if (!strcmp(p->action, "eisdir")) { trace("read %s -> EISDIR\n", rel); errno = EISDIR; return -1; }
    if (!strcmp(p->action, "exit")) { trace("exit read %s\n", rel); _exit((int)p->arg); }
    if (!strcmp(p->action, "short") && p->arg > 0 && (size_t)p->arg < n) n = p->arg;
  }
  ssize_t r = real_read(fd, buf, n);
  int e = errno;
  trace("read %s n=%zu -> %zd%s\n", rel, n, r, p ? " (short)" : "");
  errno = e; return r;
}

ssize_t write(int fd, const void *buf, size_t n) {
  init();
  if (fd < 0 || fd >= MAXFD || !fd_path[fd]) return real_write(fd, buf, n);
  tick();
  const char *rel = fd_path[fd] + fs_root_len;
  struct plan *p = find_plan("write", 2, fd_path[fd]);
  if (p) {
    if (!strcmp(p->action, "eintr")) { trace("write %s -> EINTR\n", rel); errno = EINTR; return -1; }
    if (!strcmp(p->action, "eio")) { trace("write %s -> EIO\n", rel); errno = EIO; return -1; }
    if (!strcmp(p->action, "exit")) { trace("exit write %s\n", rel); _exit((int)p->arg); }
    if (!strcmp(p->action, "enospc")) {
      if (p->arg <= 0 || (size_t)p->arg >= n) { trace("write %s -> ENOSPC\n", rel); errno = ENOSPC; return -1; }
      n = p->arg; /* partial write now; the retry hits the sticky ENOSPC below */
      struct plan *q = nplans < MAXPLAN ? &plans[nplans++] : 0;
      if (q) { *q = *p; q->nth = p->nth + 1; q->arg = 0; q->fired = 0; }
    }
    if (!strcmp(p->action, "short") && p->arg > 0 && (size_t)p->arg < n) n = p->arg;
  }
  ssize_t r = real_write(fd, buf, n);
  int e = errno;
  trace("write %s n=%zu -> %zd%s\n", rel, n, r, p ? " (short)" : "");
  errno = e; return r;
}

int close(int fd) {
  init();
  if (fd >= 0 && fd < MAXFD && fd_path[fd]) {
    tick();
    trace("close %s\n", fd_path[fd] + fs_root_len);
    free(fd_path[fd]); fd_path[fd] = 0;
  }
  return real_close(fd);
}

ssize_t getrandom(void *buf, size_t len, unsigned int flags) {
  init();
  if (!have_seed) return syscall(SYS_getrandom, buf, len, flags);
  uint64_t st = hash_seed ^ (rnd_ctr++ * 0xD1B54A32D192ED03ULL);
  unsigned char *b = buf;
  for (size_t i = 0; i < len;) {
    uint64_t v = splitmix(&st);
    for (int k = 0; k < 8 && i < len; k++, i++) b[i] = (unsigned char)(v >> (8 * k));
  }
  return (ssize_t)len;
}

int clock_gettime(clockid_t id, struct timespec *ts) {
  init();
  if (have_time && id == CLOCK_REALTIME) { ts->tv_sec = fake_time; ts->tv_nsec = 0; return 0; }
  return real_clock_gettime(id, ts);
}
