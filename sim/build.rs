// Tells the simulator where the code under test lives, so that
// `include!(concat!(env!("OAL_REPO"), "/oal-client/src/bin/oal-lsp.rs"))`
// always compiles the shipped server loop from the tree being checked.
fn main() {
    let repo = std::env::var("OAL_REPO").unwrap_or_else(|_| "/repo".to_string());
    println!("cargo:rustc-env=OAL_REPO={repo}");
    println!("cargo:rerun-if-env-changed=OAL_REPO");
    println!("cargo:rerun-if-changed={repo}/oal-client/src/bin/oal-lsp.rs");
    println!("cargo:rustc-check-cfg=cfg(oal_verif)");
}
