//! Stand-in for `crossbeam-channel` as seen by the *included* `oal-lsp.rs`
//! source only. Everything is the real crate, except `select!`, which asks
//! the simulator (through a thread-local hook) what happens next at the
//! server's one blocking point: a message is ready, the idle timer fires, or
//! the peer hung up.
pub use real::*;

use std::cell::RefCell;
use std::time::Duration;

/// What the simulated scheduler decided at a `select!` point.
pub enum SimChoice {
    /// A message is available on the receiver: the `recv` arm runs.
    Recv,
    /// The `default(timeout)` arm runs (idle timer expired).
    Timeout,
    /// The channel is disconnected: the `recv` arm runs with `Err`.
    Disconnected,
    /// Stop the simulation here: unwinds with `SimStop` (caught by the harness).
    Stop,
}

/// Payload used to unwind out of `main_loop` when the simulator pauses it.
pub struct SimStop;

/// The hook sees the timeout of the `default` arm and — when the receiver is spelled
/// `<ident>.conn.receiver` — the object behind `<ident>` (the server's whole state), for the
/// time the server is parked at this `select!`.
type Hook = Box<dyn FnMut(Option<Duration>, Option<&mut dyn std::any::Any>) -> SimChoice>;

thread_local! {
    static HOOK: RefCell<Option<Hook>> = const { RefCell::new(None) };
}

pub fn sim_set_hook(h: Option<Hook>) {
    HOOK.with(|c| *c.borrow_mut() = h);
}

pub fn sim_decide(timeout: Option<Duration>) -> SimChoice {
    sim_decide_inner(timeout, None)
}

/// `sim_decide` with the state the receiver belongs to.
pub fn sim_decide_with<T: std::any::Any>(timeout: Option<Duration>, state: &mut T) -> SimChoice {
    sim_decide_inner(timeout, Some(state as &mut dyn std::any::Any))
}

fn sim_decide_inner(timeout: Option<Duration>, state: Option<&mut dyn std::any::Any>) -> SimChoice {
    // Take the hook out while it runs so that it may itself install another.
    let mut h = HOOK
        .with(|c| c.borrow_mut().take())
        .expect("select! reached without a simulator hook");
    let r = h(timeout, state);
    HOOK.with(|c| {
        let mut b = c.borrow_mut();
        if b.is_none() {
            *b = Some(h);
        }
    });
    r
}

pub fn sim_recv<T>(r: &Receiver<T>, choice: &SimChoice) -> Result<T, RecvError> {
    match choice {
        SimChoice::Recv => match r.try_recv() {
            Ok(m) => Ok(m),
            Err(TryRecvError::Disconnected) => Err(RecvError),
            Err(TryRecvError::Empty) => panic!("simulator said Recv but the channel is empty"),
        },
        _ => Err(RecvError),
    }
}

/// Replacement for `crossbeam_channel::select!` restricted to the shape the
/// server uses: one `recv` arm and an optional `default(timeout)` arm.
/// Any other shape fails to compile, which the check reports as a harness
/// error (exit 2) rather than guessing.
#[macro_export]
macro_rules! select {
    // the shape the shipped server has: the receiver is a field of the state it was handed
    (recv($s:ident . conn . receiver) -> $m:pat => $body:block $(,)? default($t:expr) => $dbody:block $(,)?) => {{
        let __choice = $crate::sim_decide_with(Some($t), &mut *$s);
        match __choice {
            $crate::SimChoice::Timeout => $dbody,
            $crate::SimChoice::Stop => ::std::panic::resume_unwind(Box::new($crate::SimStop)),
            _ => {
                let $m = $crate::sim_recv(&$s.conn.receiver, &__choice);
                $body
            }
        }
    }};
    (recv($s:ident . conn . receiver) -> $m:pat => $body:expr, default($t:expr) => $dbody:expr $(,)?) => {{
        let __choice = $crate::sim_decide_with(Some($t), &mut *$s);
        match __choice {
            $crate::SimChoice::Timeout => $dbody,
            $crate::SimChoice::Stop => ::std::panic::resume_unwind(Box::new($crate::SimStop)),
            _ => {
                let $m = $crate::sim_recv(&$s.conn.receiver, &__choice);
                $body
            }
        }
    }};
    (recv($r:expr) -> $m:pat => $body:block $(,)? default($t:expr) => $dbody:block $(,)?) => {{
        let __choice = $crate::sim_decide(Some($t));
        match __choice {
            $crate::SimChoice::Timeout => $dbody,
            $crate::SimChoice::Stop => ::std::panic::resume_unwind(Box::new($crate::SimStop)),
            _ => {
                let $m = $crate::sim_recv(&$r, &__choice);
                $body
            }
        }
    }};
    // the same two shapes with expression bodies (`=> msg?,`)
    (recv($r:expr) -> $m:pat => $body:expr, default($t:expr) => $dbody:expr $(,)?) => {{
        let __choice = $crate::sim_decide(Some($t));
        match __choice {
            $crate::SimChoice::Timeout => $dbody,
            $crate::SimChoice::Stop => ::std::panic::resume_unwind(Box::new($crate::SimStop)),
            _ => {
                let $m = $crate::sim_recv(&$r, &__choice);
                $body
            }
        }
    }};
    (recv($r:expr) -> $m:pat => $body:block $(,)?) => {{
        let __choice = $crate::sim_decide(None);
        match __choice {
            $crate::SimChoice::Stop => ::std::panic::resume_unwind(Box::new($crate::SimStop)),
            $crate::SimChoice::Timeout => panic!("simulator chose Timeout but select! has no default arm"),
            _ => {
                let $m = $crate::sim_recv(&$r, &__choice);
                $body
            }
        }
    }};
}
