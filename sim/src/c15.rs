//! C15 — after any history, published diagnostics and request answers equal those of a
//! fresh server handed the final texts; no drift; the server stays alive.

use crate::hist;
use crate::lsp_min;
use crate::lsp_sim::{run_scenario, Ev, Scenario};
use crate::prng::digest64;
use crate::report::{Found, Report};
use serde_json::json;

pub fn found_from(prop: &str, scn: &Scenario, sig: &str, oracle: &str, detail: &str) -> Found {
    Found {
        signature: format!("{prop} {sig}"),
        oracle: oracle.to_string(),
        detail: detail.to_string(),
        scenario: json!({ "scenario": scn }),
    }
}

pub fn run(seed: u64, run: u64) -> Report {
    run_prop("C15", hist::Sem::None, seed, run)
}

pub fn run_prop(prop: &'static str, sem: hist::Sem, seed: u64, run: u64) -> Report {
    let plan = hist::plan(seed, prop, run, sem);
    let scn = plan.scenario.clone();
    let out = run_scenario(&scn, None);
    let mut probes: Vec<String> = out.stats.probes.iter().cloned().collect();
    for t in plan.targets.iter() {
        probes.push(format!("target_{}", t.kind));
    }
    if scn.folder_b {
        probes.push("second_folder".into());
        if scn.events.iter().any(|e| matches!(e, Ev::Change { path, .. } if path.starts_with("fb/"))) {
            probes.push("second_folder_edited".into());
        }
    }
    if scn.events.iter().any(|e| matches!(e, Ev::RenameLoop { .. })) {
        probes.push("rename_loop".into());
    }
    if scn.events.iter().any(|e| matches!(e, Ev::Open { path, .. } if path == "oal.toml")) {
        probes.push("client_edits_the_configuration_file".into());
    }
    for p in plan.programs.iter() {
        for f in ["qualifier_spelled_like_a_member", "qualifier_used_by_two_imports", "unqualified_imports_share_a_name"] {
            if p.features.contains(f) {
                probes.push(format!("program_{f}"));
            }
        }
    }
    probes.sort();
    probes.dedup();
    let violation = out.violation.as_ref().map(|v| {
        let sig = v.signature.clone();
        let fails = |c: &Scenario| matches!(run_scenario(c, None).violation, Some(v2) if v2.signature == sig);
        let min = lsp_min::minimise(&scn, v.at, &fails, 600);
        let v2 = run_scenario(&min, None).violation.unwrap_or_else(|| v.clone());
        found_from(prop, &min, &v2.signature, &v2.oracle, &v2.detail)
    });
    let mut counters: Vec<(String, u64)> = out.stats.counters.iter().map(|(k, v)| (k.clone(), *v)).collect();
    counters.push(("events".into(), scn.events.len() as u64));
    if out.discarded.is_some() {
        counters.push(("runs_discarded".into(), 1));
    }
    let sample = json!({
        "run": run,
        "hash_seed": scn.hash_seed,
        "disk_files": scn.disk.keys().collect::<Vec<_>>(),
        "main.oal": scn.disk.get("main.oal"),
        "events": scn.events.iter().map(|e| match e {
            Ev::Open { path, text } => json!({"open": path, "bytes": text.len()}),
            Ev::Change { path, changes } => json!({"change": path, "ranges": changes.iter().map(|c| c.range).collect::<Vec<_>>(), "inserted": changes.iter().map(|c| c.text.chars().take(24).collect::<String>()).collect::<Vec<_>>()}),
            Ev::Close { path } => json!({"close": path}),
            Ev::Save { path } => json!({"save": path}),
            Ev::Idle => json!("idle-timer-fires"),
            Ev::Burst { n } => json!({"burst_of_up_to": n}),
            Ev::Noise { kind } => json!({"notification_without_a_handler": kind}),
            Ev::ConfigOnDisk { main } => json!({"oal_toml_rewritten_on_disk_main": main}),
            Ev::Reopen { path, text } => json!({"open_again_while_open": path, "bytes": text.len()}),
            Ev::Request { kind, path, pos, .. } => json!({"request": format!("{kind:?}"), "path": path, "pos": pos}),
            Ev::RenameLoop { path, pos, new_name } => json!({"rename_loop": path, "pos": pos, "new_name": new_name}),
            Ev::Folder { add, b } => json!({"folder_added": add, "second_folder": b}),
            Ev::FolderReadd { b } => json!({"folder_removed_and_added_in_one_notification": true, "second_folder": b}),
            Ev::DiskDelete { path, how } => json!({"deleted_on_disk": path, "how": (["removed", "directory in its place", "not UTF-8"][(*how).min(2) as usize])}),
            Ev::DiskRestore { path } => json!({"restored_on_disk": path}),
            Ev::Checkpoint => json!("checkpoint: quiesce, compare with a fresh server"),
            Ev::Sem { target, mode } => json!({"semantic_checkpoint": mode, "target": target, "identifier_occurrences": scn.sem.get(*target).map(|t| t.occs.values().map(|v| v.len()).sum::<usize>())}),
        }).collect::<Vec<_>>(),
        "targets": plan.targets.iter().map(|t| t.kind).collect::<Vec<_>>(),
    });
    Report {
        violation,
        digest: out.digest,
        interleaving: digest64(out.stats.interleaving.as_bytes()),
        states: out.stats.states.clone(),
        nontrivial: out.discarded.is_none()
            && if sem == hist::Sem::None {
                scn.events.iter().filter(|e| matches!(e, Ev::Change { .. })).count() >= 1
            } else {
                out.stats.counters.get("semantic_checkpoints").copied().unwrap_or(0) >= 1
            },
        evals: 1 + out.stats.evals,
        oracle_checks: out.stats.oracle_checks,
        sim_time_ms: out.stats.sim_time_ms,
        // what the environment did to the server between its own steps
        fault_kinds: probes.iter().filter(|p| p.ends_with("_behind_the_server") || p.starts_with("idle_timer_") || p.starts_with("folder_removed")).cloned().collect(),
        probes,
        sample,
        counters,
    }
}

pub fn replay(doc: &serde_json::Value) -> Result<Option<Found>, String> {
    replay_prop("C15", doc)
}

pub fn replay_prop(prop: &str, doc: &serde_json::Value) -> Result<Option<Found>, String> {
    let scn: Scenario = serde_json::from_value(doc["scenario"].clone()).map_err(|e| e.to_string())?;
    let out = run_scenario(&scn, None);
    Ok(out.violation.map(|v| found_from(prop, &scn, &v.signature, &v.oracle, &v.detail)))
}

/// Replay of a finding of the batch that runs a history against the real binary as well.
pub fn replay_sim_vs_real(prop: &str, doc: &serde_json::Value) -> Result<Option<Found>, String> {
    let scn: Scenario = serde_json::from_value(doc["scenario"].clone()).map_err(|e| e.to_string())?;
    let prop: &'static str = match prop {
        "C17" => "C17",
        "C18" => "C18",
        _ => "C15",
    };
    Ok(sim_vs_real(prop, &scn).0)
}

/// The scenario of run (seed, run) of `prop`, for the driver's attribution probe.
pub fn scenario_of(prop: &'static str, sem: hist::Sem, seed: u64, run: u64) -> Scenario {
    hist::plan(seed, prop, run, sem).scenario
}

/// Thorough tier: the same history against the simulated server and against the real
/// `oal-lsp` process (fresh reference servers are real processes too); both must be clean
/// and their transcripts (every request answer, every diagnostics snapshot) identical.
pub fn validate(prop: &'static str, sem: hist::Sem, seed: u64, run: u64) -> Report {
    let plan = hist::plan(seed, prop, run, sem);
    let scn = plan.scenario.clone();
    let (violation, a, b) = sim_vs_real(prop, &scn);
    Report {
        violation,
        digest: a.digest,
        interleaving: crate::prng::digest64(a.stats.interleaving.as_bytes()),
        states: vec![],
        nontrivial: a.transcript.len() >= 2,
        evals: 2,
        oracle_checks: a.transcript.len() as u64,
        sim_time_ms: 0,
        probes: vec![],
        fault_kinds: vec![],
        sample: json!({"run": run, "transcript_entries": a.transcript.len(), "first_entries": a.transcript.iter().take(4).collect::<Vec<_>>()}),
        counters: vec![("traces_validated_against_real_binary".into(), (a.discarded.is_none() && b.discarded.is_none()) as u64), ("transcript_entries".into(), a.transcript.len() as u64)],
    }
}

/// One history against the simulated server and against the real `oal-lsp` process.
fn sim_vs_real(prop: &'static str, scn: &Scenario) -> (Option<Found>, crate::lsp_sim::Outcome, crate::lsp_sim::Outcome) {
    let scn = scn.clone();
    let bin = format!("{}/oal-lsp", std::env::var("OALSIM_REALBIN").unwrap_or_default());
    std::env::remove_var("OALSIM_REAL_LSP");
    let a = run_scenario(&scn, None);
    std::env::set_var("OALSIM_REAL_LSP", &bin);
    let b = run_scenario(&scn, None);
    std::env::remove_var("OALSIM_REAL_LSP");
    let mut violation = None;
    let verdict = |o: &crate::lsp_sim::Outcome| o.violation.as_ref().map(|v| v.signature.clone());
    // the drift oracle needs the in-process hook; it has no counterpart on the real process
    let drift_only = a.violation.as_ref().map(|v| v.oracle == "document-drift").unwrap_or(false);
    if a.discarded.is_none() && b.discarded.is_none() && !drift_only {
        if verdict(&a) != verdict(&b) {
            violation = Some(found_from(
                prop,
                &scn,
                "sim-vs-real verdicts-differ",
                "simulated-vs-real",
                &format!("simulated server: {:?}; real oal-lsp: {:?}", a.violation.as_ref().map(|v| (&v.signature, &v.detail)), b.violation.as_ref().map(|v| (&v.signature, &v.detail))),
            ));
        } else if a.transcript != b.transcript {
            let k = a.transcript.iter().zip(b.transcript.iter()).position(|(x, y)| x != y).unwrap_or(a.transcript.len().min(b.transcript.len()));
            violation = Some(found_from(
                prop,
                &scn,
                "sim-vs-real transcripts-differ",
                "simulated-vs-real",
                &format!("entry {k}: simulated {:?} vs real {:?} (lengths {} / {})", a.transcript.get(k), b.transcript.get(k), a.transcript.len(), b.transcript.len()),
            ));
        }
    }
    (violation, a, b)
}
