//! C13 — the real `oal-cli` process in a scratch directory under the LD_PRELOAD
//! seams (hash seed, clock, file-system faults and trace), compared with the wasm
//! entry point and with a simulated language server on the same directory.

use crate::gen::{self, GenCfg, Layout};
use crate::hist::{self, Files};
use crate::lsp_sim::{ClientModel, Peer, World, CONFIG};
use crate::pipeline::{canonicalise_hash_names, compile_to_yaml, Phase};
use crate::prng::{digest64, Rng};
use crate::report::{Found, Report};
use serde::{Deserialize, Serialize};
use serde_json::json;
use std::collections::BTreeMap;

const SENTINEL: &str = "# sentinel: previous target content\nkeep: me\n";
const BASE_YAML: &str = "openapi: 3.0.3\ninfo:\n  title: Base title\n  version: 9.9.9\nservers:\n- url: https://example.test/\npaths: {}\n";

#[derive(Serialize, Deserialize, Clone, Debug, PartialEq)]
pub enum Fault {
    None,
    /// VERIF_FAULTS plan that a correct program must absorb (short reads/writes, EINTR).
    Benign(String),
    /// VERIF_FAULTS plan that must make the run fail (EIO, ENOENT, EISDIR, EMFILE, ENOSPC).
    Hard(String),
    /// `_exit(137)` at the k-th intercepted call.
    CrashAt(usize),
    /// The file's content differs between its first and second open.
    Flip { path: String, alt: String },
    TargetIsDir,
    TargetDevFull,
    SourceIsDir(String),
    NonUtf8(String),
    MalformedBase,
}

#[derive(Serialize, Deserialize, Clone, Debug, PartialEq)]
pub enum LspStep {
    Open(String),
    Close(String),
    Idle,
}

#[derive(Serialize, Deserialize, Clone, Debug)]
pub struct Scenario {
    pub files: Files,
    /// 0: options only, 1: config file only, 2: config file, target overridden by an option
    pub config_mode: u8,
    pub with_base: bool,
    pub prefilled: bool,
    pub hash_seed: u64,
    pub fake_time: i64,
    pub fault: Fault,
    pub lsp: Vec<LspStep>,
    /// a second workspace folder `fb/` (its accepted one-module program is part of `files`)
    #[serde(default)]
    pub folder_b: bool,
    /// "" or "src/": where the program's modules live relative to the configuration
    #[serde(default)]
    pub src_prefix: String,
    /// the effective target, relative to the configuration ("" = out.yaml / override.yaml);
    /// "missing/api.yaml" names a directory that does not exist
    #[serde(default)]
    pub target_rel: String,
    /// -1: -q, 0: default, 1..4: -v … -vvvv
    #[serde(default)]
    pub verbosity: i8,
    /// the pre-filled target is longer than any document (a previous, larger output)
    #[serde(default)]
    pub long_sentinel: bool,
    /// the pre-filled target is not valid UTF-8 (a stale file in another encoding)
    #[serde(default)]
    pub binary_sentinel: bool,
    /// every source (and the base) was last modified an hour ago; an existing target is newer
    #[serde(default)]
    pub old_sources: bool,
    /// the second folder's program is erroneous too (only the first program's documents are judged)
    #[serde(default)]
    pub folder_b_broken: bool,
    /// how main / target / base are written: 0 relative, 1 absolute paths, 2 file:// URLs
    #[serde(default)]
    pub setting_style: u8,
    /// an imported module that is a symbolic link to a regular file beside it
    #[serde(default)]
    pub symlinked: Option<String>,
    /// how `-c` names the configuration file (the process stands in its directory):
    /// 0 absolute path, 1 `oal.toml`, 2 `./oal.toml`, 3 `src/../oal.toml` or `./././oal.toml`
    #[serde(default)]
    pub conf_spelling: u8,
    /// the configuration file lives in `conf/` and names main, target and base one level up
    /// (so the target is outside the configuration's own directory); config-file mode only
    #[serde(default)]
    pub conf_in_subdir: bool,
    /// options mode: what `oal.toml` lies in the working directory all the same — 0 this run's
    /// settings, 1 other settings (another base, main and target), 2 no TOML at all, 3 none
    #[serde(default)]
    pub decoy_config: u8,
}

fn conf_subdir(scn: &Scenario) -> bool {
    scn.conf_in_subdir && scn.config_mode == 1 && scn.setting_style == 0
}

fn conf_arg(scn: &Scenario, root: &std::path::Path) -> std::ffi::OsString {
    if conf_subdir(scn) {
        return match scn.conf_spelling {
            1 => "conf/oal.toml".into(),
            2 => "./conf/oal.toml".into(),
            3 => "conf/../conf/oal.toml".into(),
            _ => root.join("conf/oal.toml").into_os_string(),
        };
    }
    match scn.conf_spelling {
        1 => "oal.toml".into(),
        2 => "./oal.toml".into(),
        3 if !scn.src_prefix.is_empty() => "src/../oal.toml".into(),
        3 => "./././oal.toml".into(),
        _ => root.join("oal.toml").into_os_string(),
    }
}

fn sentinel_bytes(scn: &Scenario) -> Vec<u8> {
    let mut b = sentinel(scn).into_bytes();
    if scn.binary_sentinel {
        b.extend_from_slice(b"title: caf\xe9 \xff\xfe\n");
    }
    b
}

fn sentinel(scn: &Scenario) -> String {
    let mut s = SENTINEL.to_string();
    if scn.long_sentinel {
        for i in 0..2000 {
            s.push_str(&format!("old{i}: stale tail of a previous, longer document\n"));
        }
    }
    s
}

fn main_path(scn: &Scenario) -> String {
    format!("{}main.oal", scn.src_prefix)
}

fn target_dir_missing(scn: &Scenario) -> bool {
    scn.target_rel.starts_with("missing/")
}

#[derive(Clone, Debug, Default)]
pub struct Outcome {
    /// the configuration file's own target exists although an option overrides it
    pub ignored_target_written: bool,
    pub exit: Option<i32>,
    pub stderr: String,
    pub target: Option<Vec<u8>>,
    pub target_is_file: bool,
    pub trace: Vec<String>,
    /// `file://` URL of the directory the process compiled in (empty: not known)
    pub root_url: String,
}

pub struct Cfg {
    pub cli: String,
    pub shim: String,
}

pub fn cfg() -> Option<Cfg> {
    let cli = format!("{}/oal-cli", std::env::var("OALSIM_REALBIN").ok()?);
    let shim = std::env::var("OALSIM_SHIMLIB").ok()?;
    if !std::path::Path::new(&cli).exists() || !std::path::Path::new(&shim).exists() {
        return None;
    }
    Some(Cfg { cli, shim })
}

fn target_name(scn: &Scenario) -> String {
    if !scn.target_rel.is_empty() {
        return scn.target_rel.clone();
    }
    match scn.config_mode {
        2 => "override.yaml".into(),
        _ => "out.yaml".into(),
    }
}

/// A setting as it is written in the configuration or on the command line.
fn setting(scn: &Scenario, root: &std::path::Path, rel: &str) -> String {
    match scn.setting_style {
        1 => format!("{}/{rel}", root.display()),
        2 => format!("file://{}/{rel}", root.display()),
        _ if conf_subdir(scn) => format!("../{rel}"),
        _ => rel.to_string(),
    }
}

fn config_text(scn: &Scenario, root: &std::path::Path) -> String {
    let file_target = if scn.config_mode == 2 { "ignored.yaml".to_string() } else { target_name(scn) };
    let mut config = format!("[api]\nmain = \"{}\"\ntarget = \"{}\"\n", setting(scn, root, &main_path(scn)), setting(scn, root, &file_target));
    if scn.with_base {
        config.push_str(&format!("base = \"{}\"\n", setting(scn, root, "base.yaml")));
    }
    config
}

pub fn execute(c: &Cfg, world: &World, scn: &Scenario) -> Outcome {
    execute_inner(c, world, scn, None)
}

fn execute_with_planted_target(c: &Cfg, world: &World, scn: &Scenario, _tp: &std::path::Path, content: &[u8]) -> Outcome {
    execute_inner(c, world, scn, Some(content))
}

fn execute_inner(c: &Cfg, world: &World, scn: &Scenario, planted: Option<&[u8]>) -> Outcome {
    world.reset("", &scn.files);
    let root = world.root.canonicalize().expect("root");
    let config = config_text(scn, &root);
    if scn.config_mode == 0 {
        // everything is on the command line; an `oal.toml` that happens to lie in the working
        // directory (every workspace folder has one) is none of this run's business
        match scn.decoy_config {
            1 => world.write("oal.toml", "[api]\nmain = \"nowhere.oal\"\ntarget = \"ignored-by-options.yaml\"\nbase = \"decoy-base.yaml\"\n"),
            2 => world.write("oal.toml", "this is = not [ toml"),
            3 => {}
            _ => world.write("oal.toml", &config),
        }
        if scn.decoy_config == 1 {
            world.write("decoy-base.yaml", "openapi: 3.0.3\ninfo:\n  title: Decoy\n  version: 9.9.9\npaths: {}\n");
        }
    } else {
        world.write(if conf_subdir(scn) { "conf/oal.toml" } else { "oal.toml" }, &config);
    }
    let rootp = format!("{}/", root.display());
    if scn.with_base {
        let b = if scn.fault == Fault::MalformedBase { "{ not: [yaml" } else { BASE_YAML };
        std::fs::write(root.join("base.yaml"), b).expect("scratch");
    }
    if let Some(p) = &scn.symlinked {
        // the module's name is a link to the file that holds its text
        let at = root.join(p);
        if let (true, Some(name)) = (at.is_file(), at.file_name().and_then(|n| n.to_str())) {
            let real = format!("{name}.real");
            if std::fs::rename(&at, at.with_file_name(&real)).is_ok() {
                std::os::unix::fs::symlink(&real, &at).expect("scratch");
            }
        }
    }
    let tname = target_name(scn);
    let mut tpath = root.join(&tname);
    if let Some(parent) = tpath.parent() {
        if !target_dir_missing(scn) {
            std::fs::create_dir_all(parent).expect("scratch");
        }
    }
    match &scn.fault {
        Fault::TargetIsDir => {
            std::fs::create_dir_all(&tpath).expect("scratch");
        }
        Fault::SourceIsDir(p) => {
            let _ = std::fs::remove_file(root.join(p));
            std::fs::create_dir_all(root.join(p)).expect("scratch");
        }
        Fault::NonUtf8(p) => {
            let mut b = scn.files.get(p).cloned().unwrap_or_default().into_bytes();
            // on a line of their own: whether a front end refuses the bytes or decodes them lossily, the
            // module is no valid source (U+FFFD starts no token), so exit 0 is wrong under either reading
            b.extend_from_slice(&[b'\n', 0xff, 0xfe, b'\n']);
            std::fs::write(root.join(p), b).expect("scratch");
        }
        Fault::Flip { path, alt } => {
            std::fs::write(root.join(format!("{path}.alt")), alt).expect("scratch");
        }
        _ => {}
    }
    if scn.old_sources {
        let past = std::time::SystemTime::now() - std::time::Duration::from_secs(3600);
        let mut names: Vec<String> = scn.files.keys().cloned().collect();
        names.push("base.yaml".into());
        names.push("oal.toml".into());
        for p in names {
            if let Ok(f) = std::fs::File::options().write(true).open(root.join(&p)) {
                let _ = f.set_modified(past);
            }
        }
    }
    if let Some(content) = planted {
        std::fs::write(&tpath, content).expect("scratch");
    } else if scn.prefilled && scn.fault != Fault::TargetIsDir && !target_dir_missing(scn) {
        std::fs::write(&tpath, sentinel_bytes(scn)).expect("scratch");
    }
    let trace_path = root.parent().unwrap().join("trace.txt");
    let _ = std::fs::remove_file(&trace_path);
    let mut cmd = std::process::Command::new("setarch");
    cmd.arg("-R").arg(&c.cli).current_dir(&root);
    let mut target_arg = tname.to_string();
    if scn.fault == Fault::TargetDevFull {
        target_arg = "/dev/full".into();
        tpath = std::path::PathBuf::from("/dev/full");
    }
    match scn.config_mode {
        0 => {
            let targ = if target_arg.starts_with('/') { target_arg.clone() } else { setting(scn, &root, &target_arg) };
            cmd.args(["-m", &setting(scn, &root, &main_path(scn)), "-t", &targ]);
            if scn.with_base {
                cmd.args(["-b", &setting(scn, &root, "base.yaml")]);
            }
        }
        1 => {
            cmd.arg("-c").arg(conf_arg(scn, &root));
            if scn.fault == Fault::TargetDevFull {
                cmd.args(["-t", &target_arg]);
            }
        }
        _ => {
            cmd.arg("-c").arg(conf_arg(scn, &root)).args(["-t", &target_arg]);
        }
    }
    match scn.verbosity {
        -1 => {
            cmd.arg("-q");
        }
        1 => {
            cmd.arg("-v");
        }
        2 => {
            cmd.arg("-vv");
        }
        3 => {
            cmd.arg("-vvv");
        }
        4 => {
            cmd.arg("-vvvv");
        }
        _ => {}
    }
    cmd.env("LD_PRELOAD", &c.shim)
        .env("VERIF_HASH_SEED", scn.hash_seed.to_string())
        .env("VERIF_FAKE_TIME", scn.fake_time.to_string())
        .env("VERIF_FS_ROOT", &rootp)
        .env("VERIF_TRACE", &trace_path)
        .env_remove("VERIF_FAULTS")
        .env_remove("VERIF_CRASH_AT");
    match &scn.fault {
        Fault::Benign(p) | Fault::Hard(p) => {
            cmd.env("VERIF_FAULTS", p);
        }
        Fault::CrashAt(k) => {
            cmd.env("VERIF_CRASH_AT", k.to_string());
        }
        Fault::Flip { path, .. } => {
            cmd.env("VERIF_FAULTS", format!("open:{path}:1:alt"));
        }
        _ => {}
    }
    let out = match cmd.output() {
        Ok(o) => o,
        Err(e) => {
            return Outcome {
                stderr: format!("harness: spawn failed: {e}"),
                ..Default::default()
            }
        }
    };
    let target_is_file = tpath.is_file();
    let target = if target_is_file { std::fs::read(&tpath).ok() } else { None };
    let trace = std::fs::read_to_string(&trace_path).unwrap_or_default().lines().map(|l| l.to_string()).collect();
    Outcome {
        ignored_target_written: scn.config_mode == 2 && root.join("ignored.yaml").exists(),
        exit: out.status.code(),
        stderr: String::from_utf8_lossy(&out.stderr).replace(&rootp, "$WS/"),
        target,
        target_is_file,
        trace,
        root_url: url::Url::from_directory_path(&root).map(|u| u.to_string()).unwrap_or_default(),
    }
}

#[derive(Clone, Debug)]
pub struct Violation {
    pub oracle: String,
    pub detail: String,
}

fn v(oracle: &str, detail: String) -> Option<Violation> {
    Some(Violation {
        oracle: oracle.into(),
        detail,
    })
}

/// Trace ordering: the target is opened for writing at most once and after the last read of any source or base.
fn trace_order(scn: &Scenario, o: &Outcome) -> Option<Violation> {
    let t = target_name(scn);
    let t = t.as_str();
    let wopens: Vec<usize> = o.trace.iter().enumerate().filter(|(_, l)| l.starts_with(&format!("open {t} flags=w"))).map(|(i, _)| i).collect();
    if wopens.len() > 1 {
        return v("target-opened-twice", format!("{:?}", o.trace));
    }
    if let Some(w) = wopens.first() {
        let last_read = o.trace.iter().enumerate().filter(|(_, l)| (l.starts_with("read ") || l.starts_with("open ")) && !l.contains(&format!(" {t} "))).map(|(i, _)| i).max();
        if let Some(r) = last_read {
            if r > *w {
                return v("target-opened-before-inputs-read", format!("write-open at call {w}, input access at call {r}: {:?}", o.trace));
            }
        }
    }
    None
}

fn target_untouched(scn: &Scenario, o: &Outcome) -> bool {
    if scn.prefilled && !target_dir_missing(scn) {
        o.target.as_deref() == Some(sentinel_bytes(scn).as_slice())
    } else {
        o.target.is_none() && !o.target_is_file
    }
}

fn complete_document(bytes: &[u8]) -> bool {
    let Ok(s) = std::str::from_utf8(bytes) else { return false };
    match serde_yaml::from_str::<serde_yaml::Value>(s) {
        Ok(serde_yaml::Value::Mapping(m)) => m.contains_key(serde_yaml::Value::String("openapi".into())) && m.contains_key(serde_yaml::Value::String("paths".into())),
        _ => false,
    }
}

/// The reference verdict: does the same pipeline, in process, accept these sources?
pub fn reference(scn: &Scenario) -> Result<String, (Phase, String)> {
    compile_to_yaml("file:///w/", &scn.files, &main_path(scn)).map_err(|f| (f.phase, f.message))
}

/// Sources that are invalid whatever else they hold, decided on the main module's text alone
/// (so it stays true under minimisation): no token starts with U+FEFF or with `^`, and a run of
/// `^` from the start of a line to the end of the text is inside no comment (line comments end
/// with the line, block comments need a closing `*/`), no string and no annotation (both need a
/// closing quote).
pub fn certainly_invalid(scn: &Scenario) -> Option<&'static str> {
    let t = scn.files.get(&main_path(scn))?;
    if t.starts_with('\u{feff}') {
        return Some("a byte order mark starts the main module");
    }
    let last = t.rsplit('\n').next().unwrap_or("");
    if !last.is_empty() && last.chars().all(|c| c == '^') {
        return Some("stray characters end the main module");
    }
    let body = t.replace("\r\n", "\n");
    let body = body.trim_end_matches('\n');
    for (_, trailer) in hist::POISON_TRAILERS {
        if body == *trailer || body.ends_with(&format!("\n{trailer}")) {
            return Some("the main module ends in statements that no program may hold");
        }
    }
    // a well-formed last statement whose status is no HTTP status: whatever precedes it either
    // is rejected itself or leaves this statement to be rejected
    let last_line = t.trim_end_matches(['\n', '\r']).rsplit(['\n', '\r']).next().unwrap_or("");
    if let Some(n) = last_line.strip_prefix("res /zz-no-such-status on get -> <status=").and_then(|r| r.strip_suffix(", {}>;")) {
        if let Ok(n) = n.parse::<u64>() {
            if !(100..=599).contains(&n) {
                return Some("the main module ends in a transfer whose status is no HTTP status");
            }
        }
    }
    None
}

/// Fault-free oracle (a).
pub fn check_fault_free(scn: &Scenario, o: &Outcome) -> Option<Violation> {
    if o.stderr.starts_with("harness:") {
        return None;
    }
    let r = reference(scn);
    if let (Ok(_), Some(why)) = (&r, certainly_invalid(scn)) {
        return v("invalid-sources-accepted", format!("{why}, yet the pipeline accepts the sources"));
    }
    let t = target_name(scn);
    let t = t.as_str();
    if o.ignored_target_written {
        return v("config-file-target-written-despite-override", "ignored.yaml exists after the run".into());
    }
    if target_dir_missing(scn) {
        // the target's directory does not exist: accepted sources must fail too, nothing may appear
        if o.exit == Some(0) {
            return v("success-without-target", format!("exit 0 although the target directory does not exist; sources {}", if r.is_ok() { "accepted" } else { "rejected" }));
        }
        return trace_order(scn, o);
    }
    match (&r, o.exit) {
        (Ok(_), Some(0)) => {
            let Some(bytes) = &o.target else {
                return v("success-without-target", "exit 0 but no target file".into());
            };
            if !complete_document(bytes) {
                return v("success-with-incomplete-target", format!("exit 0, target has {} bytes and is not a complete document", bytes.len()));
            }
            if !o.trace.iter().any(|l| l.starts_with(&format!("open {t} flags=w"))) {
                return v("target-not-written", "exit 0 without an open-for-write of the target".into());
            }
            // the same sources at the same location through the pipeline in process: one document
            if !scn.with_base && !o.root_url.is_empty() {
                if let Ok(doc) = compile_to_yaml(&o.root_url, &scn.files, &main_path(scn)) {
                    let a: Result<serde_yaml::Value, _> = serde_yaml::from_slice(bytes);
                    let b: Result<serde_yaml::Value, _> = serde_yaml::from_str(&doc);
                    if let (Ok(a), Ok(b)) = (a, b) {
                        if a != b {
                            return v("document-differs-from-the-pipelines", format!("exit 0, but the target ({} bytes) is not the document the same sources give in process ({} bytes)", bytes.len(), doc.len()));
                        }
                    }
                }
            }
        }
        (Ok(_), e) => {
            return v("failure-on-accepted-sources", format!("exit {e:?} although the sources are accepted; stderr: {}", o.stderr.chars().take(300).collect::<String>()));
        }
        (Err((phase, msg)), Some(0)) => {
            return v("success-on-rejected-sources", format!("exit 0 although the sources fail at {phase:?}: {msg}"));
        }
        (Err((phase, msg)), e) => {
            if e.is_none() || e == Some(101) || e.map(|x| x > 128).unwrap_or(false) {
                // killed by a signal / panicked: that is C04's business unless the target suffered
                if !target_untouched(scn, o) {
                    return v("target-touched-on-source-error", format!("crash exit {e:?} at {phase:?} and the target was modified"));
                }
                return None;
            }
            if !target_untouched(scn, o) {
                return v(
                    "target-touched-on-source-error",
                    format!("sources fail at {phase:?} ({msg}), exit {e:?}, but the target {} ", match &o.target {
                        Some(b) => format!("now has {} bytes", b.len()),
                        None => "vanished".into(),
                    }),
                );
            }
            if o.trace.iter().any(|l| l.starts_with(&format!("open {t} flags=w"))) {
                return v("target-opened-on-source-error", format!("sources fail at {phase:?}; trace {:?}", o.trace));
            }
            if scn.verbosity >= 0 && o.stderr.trim().is_empty() {
                return v("no-diagnostic-printed", format!("sources fail at {phase:?} ({msg}) with empty stderr"));
            }
            let named = |p: &String| {
                // locators are URLs: a blank or a non-ASCII letter appears percent-encoded
                let enc = url::Url::from_file_path(format!("/{p}")).map(|u| u.path()[1..].to_string()).unwrap_or_default();
                o.stderr.contains(&format!("$WS/{p}")) || o.stderr.contains(&format!("$WS/{enc}"))
            };
            // (an import may also spell the module in a way neither form covers - an escape,
            // a doubled separator, a fragment: any locator inside the workspace will do)
            let named = |p: &String| named(p) || o.stderr.contains("file://$WS/");
            if matches!(phase, Phase::Syntax | Phase::Compile | Phase::Eval) && !scn.files.keys().any(named) {
                return v("diagnostic-not-located", format!("sources fail at {phase:?} ({msg}); stderr names no source: {}", o.stderr.chars().take(300).collect::<String>()));
            }
        }
    }
    trace_order(scn, o)
}

/// Oracle under a fault, relative to the fault-free outcome `o0` of the same scenario.
pub fn check_faulted(scn: &Scenario, o0: &Outcome, o: &Outcome) -> Option<Violation> {
    if o.stderr.starts_with("harness:") {
        return None;
    }
    let accepted = reference(scn).is_ok();
    let fired = o.trace.iter().any(|l| l.contains("fault") || l.contains("EINTR") || l.contains("EIO") || l.contains("ENOSPC") || l.contains("(short)") || l.contains("crash") || l.contains("-> alt") || l.contains("EISDIR"));
    if let Some(x) = trace_order(scn, o) {
        return Some(x);
    }
    match &scn.fault {
        Fault::None => None,
        Fault::Benign(_) => {
            if o.exit != o0.exit {
                return v("benign-fault-changes-exit", format!("exit {:?} under {:?}, {:?} without; trace {:?}", o.exit, scn.fault, o0.exit, o.trace));
            }
            if o.target != o0.target {
                return v("benign-fault-changes-target", format!("target differs under {:?} (exit {:?})", scn.fault, o.exit));
            }
            None
        }
        Fault::Hard(_) | Fault::TargetIsDir | Fault::TargetDevFull | Fault::SourceIsDir(_) | Fault::NonUtf8(_) | Fault::MalformedBase | Fault::Flip { .. } => {
            // with two faults in a plan only a *hard* component that fired makes failure mandatory
            let fired_hard = o.trace.iter().any(|l| l.contains("-> fault") || l.contains("EIO") || l.contains("ENOSPC") || l.contains("EISDIR"));
            let reached = match &scn.fault {
                Fault::Hard(_) => fired_hard,
                Fault::Flip { .. } => fired,
                // kernel-level faults on the target are only met by accepted sources
                Fault::TargetIsDir | Fault::TargetDevFull => accepted,
                Fault::MalformedBase => accepted && scn.with_base,
                // a source the fault-free run never opens cannot make the run fail
                Fault::SourceIsDir(p) | Fault::NonUtf8(p) => o0.trace.iter().any(|l| l.starts_with(&format!("open {p} "))),
                _ => true,
            };
            if reached && o.exit == Some(0) {
                let complete = o.target.as_deref().map(complete_document).unwrap_or(false);
                return v(
                    "success-despite-hard-fault",
                    format!("exit 0 under {:?}; target complete: {complete}; trace {:?}", scn.fault, o.trace),
                );
            }
            if !accepted && !target_untouched(scn, o) && !matches!(scn.fault, Fault::TargetIsDir | Fault::TargetDevFull) {
                return v("target-touched-on-source-error", format!("rejected sources under {:?}: target modified", scn.fault));
            }
            if !reached && (o.exit != o0.exit || (o.exit == Some(0) && o.target != o0.target)) && matches!(scn.fault, Fault::Hard(_)) {
                // only benign components (if any) fired: they must be absorbed
                return v("benign-fault-changes-outcome", format!("exit {:?} (fault-free {:?}) under {:?}; trace {:?}", o.exit, o0.exit, scn.fault, o.trace));
            }
            None
        }
        Fault::CrashAt(_) => {
            if o.exit == Some(0) {
                // the crash point was never reached
                if o.target != o0.target {
                    return v("crash-plan-changes-target", "exit 0 with another target".into());
                }
            }
            if !accepted && !target_untouched(scn, o) {
                return v("target-touched-on-source-error", format!("rejected sources, crash plan {:?}: target modified", scn.fault));
            }
            None
        }
    }
}

/// wasm agreement (single module, no base): both fail or produce the same document.
pub fn check_wasm(scn: &Scenario, o0: &Outcome) -> Option<Violation> {
    // only when a CLI failure can only come from the sources
    if scn.files.len() != 1 || scn.with_base || target_dir_missing(scn) {
        return None;
    }
    let text = scn.files.get(&main_path(scn))?.clone();
    let r = std::panic::catch_unwind(|| oal_wasm::compile(&text));
    // oal-wasm installs a panic hook on first use; keep the simulator quiet
    std::panic::set_hook(Box::new(|_| {}));
    let Ok(r) = r else {
        return None; // a panic in the pipeline is C04's business
    };
    let wasm_failed = !r.error.is_empty();
    let cli_failed = o0.exit != Some(0);
    if wasm_failed != cli_failed {
        return v("wasm-cli-disagree", format!("wasm error {:?}, CLI exit {:?}", r.error.chars().take(200).collect::<String>(), o0.exit));
    }
    if !cli_failed {
        let cli_doc = String::from_utf8_lossy(o0.target.as_deref().unwrap_or_default()).to_string();
        let a: Result<serde_yaml::Value, _> = serde_yaml::from_str(&canonicalise_hash_names(&cli_doc));
        let b: Result<serde_yaml::Value, _> = serde_yaml::from_str(&canonicalise_hash_names(&r.api));
        match (a, b) {
            (Ok(a), Ok(b)) if a == b => {}
            _ => return v("wasm-cli-documents-differ", "same sources, different documents".into()),
        }
    }
    None
}

/// LSP agreement: after a small history without text changes on the same directory the
/// server has at least one outstanding diagnostic exactly when the CLI fails.
pub fn check_lsp(world: &World, scn: &Scenario, o0: &Outcome) -> (Option<Violation>, usize) {
    if target_dir_missing(scn) {
        return (None, 0); // the CLI fails for a reason the server cannot know about
    }
    let mut client = ClientModel {
        disk: scn.files.clone(),
        open: BTreeMap::new(),
        folder_present: true,
        folder_b_present: scn.folder_b,
        deleted: BTreeMap::new(),
    };
    if scn.folder_b {
        world.write("fb/oal.toml", CONFIG);
    }
    {
        // a language server finds a folder's configuration at its top: the run's settings there
        // (the CLI may have had them on its command line, or from `conf/`)
        let root = world.root.canonicalize().expect("root");
        let mut plain = scn.clone();
        plain.conf_in_subdir = false;
        world.write("oal.toml", &config_text(&plain, &root));
    }
    let mut peer = Peer::new2(world, true, scn.folder_b);
    for s in &scn.lsp {
        match s {
            LspStep::Open(p) => {
                if let (Some(t), false) = (scn.files.get(p), client.open.contains_key(p)) {
                    client.open.insert(p.clone(), (t.clone(), 1));
                    peer.did_open(p, t, 1);
                }
            }
            LspStep::Close(p) => {
                if client.open.remove(p).is_some() {
                    let uri = world.uri(p);
                    peer.notify("textDocument/didClose", json!({"textDocument": {"uri": uri}}));
                }
            }
            LspStep::Idle => peer.idle(),
        }
        if !peer.server.alive() {
            return (None, 0); // the pipeline crashed: not this property's business
        }
    }
    peer.idle();
    if !peer.server.alive() {
        return (None, 0);
    }
    // diagnostics of the compiled program's own documents (the second folder's program is accepted)
    let n: usize = peer.diags.iter().filter(|(p, _)| !p.starts_with("fb/")).map(|(_, d)| d.len()).sum();
    let cli_failed = o0.exit != Some(0);
    if (n >= 1) != cli_failed {
        return (
            v(
                "lsp-cli-disagree",
                format!("CLI exit {:?} but the server has {n} outstanding diagnostic(s) after {:?}: {:?}", o0.exit, scn.lsp, peer.diags),
            ),
            n,
        );
    }
    (None, n)
}

pub struct Checked {
    /// true when the violation was raised by the faulted execution
    pub under_fault: bool,
    pub violation: Option<Violation>,
    pub o0: Outcome,
    pub o1: Option<Outcome>,
    pub diags: usize,
}

pub fn run_scenario(c: &Cfg, world: &World, scn: &Scenario) -> Checked {
    let mut base = scn.clone();
    base.fault = Fault::None;
    let o0 = execute(c, world, &base);
    let mut violation = check_fault_free(&base, &o0);
    let mut diags = 0;
    if violation.is_none() {
        violation = check_wasm(&base, &o0);
    }
    if violation.is_none() {
        // on a thread whose hash keys derive from the scenario: the server's folder and
        // diagnostics maps then iterate in the same order in a run and in its replay
        let (b2, o2) = (base.clone(), o0.clone());
        let r = crate::hashseed::on_fresh_thread(base.hash_seed, 64, move || {
            let w = World::new();
            check_lsp(&w, &b2, &o2)
        });
        if let Ok((x, n)) = r {
            violation = x;
            diags = n;
        }
    }
    if violation.is_none() && base.prefilled && o0.exit == Some(0) && !target_dir_missing(&base) {
        // what is written over an existing file equals what is written into a fresh one
        let mut fresh = base.clone();
        fresh.prefilled = false;
        let of = execute(c, world, &fresh);
        if of.exit == Some(0) && of.target == o0.target && of.target.is_some() {
            // ...also when the existing file is the same document in other bytes
            // (a comment line, CRLF line ends): the target must end up as the fresh bytes
            let doc = String::from_utf8_lossy(of.target.as_deref().unwrap_or_default()).to_string();
            let reformatted = format!("# reformatted by hand\r\n{}", doc.replace('\n', "\r\n"));
            let root = world.root.canonicalize().expect("root");
            let tp = root.join(target_name(&fresh));
            let mut again = fresh.clone();
            again.prefilled = false;
            // execute() resets the directory, so the file is planted through a marker scenario
            let o2 = execute_with_planted_target(c, world, &again, &tp, reformatted.as_bytes());
            if o2.exit == Some(0) && o2.target != of.target {
                violation = v(
                    "target-depends-on-previous-content",
                    format!(
                        "an existing target holding the same document in other bytes (comment, CRLF) was left with {} bytes; a fresh target gets {} bytes",
                        o2.target.as_ref().map(|t| t.len()).unwrap_or(0),
                        of.target.as_ref().map(|t| t.len()).unwrap_or(0)
                    ),
                );
            }
        }
        if violation.is_none() && of.exit == Some(0) && of.target != o0.target {
            violation = v(
                "target-depends-on-previous-content",
                format!(
                    "over an existing target the CLI left {} bytes, into a fresh one it writes {} bytes",
                    o0.target.as_ref().map(|t| t.len()).unwrap_or(0),
                    of.target.as_ref().map(|t| t.len()).unwrap_or(0)
                ),
            );
        }
    }
    let mut o1 = None;
    let mut under_fault = false;
    if violation.is_none() && scn.fault != Fault::None {
        let o = execute(c, world, scn);
        violation = check_faulted(scn, &o0, &o);
        under_fault = violation.is_some();
        o1 = Some(o);
    }
    Checked { under_fault, violation, o0, o1, diags }
}

fn gen_fault(scn: &Scenario, o0: &Outcome, rng: &mut Rng) -> Fault {
    let t = target_name(scn);
    let t = t.as_str();
    // calls of the fault-free trace: (op, path)
    let calls: Vec<(String, String)> = o0
        .trace
        .iter()
        .filter_map(|l| {
            let mut it = l.split_whitespace();
            let op = it.next()?;
            let p = it.next()?;
            Some((op.to_string(), p.to_string()))
        })
        .collect();
    let nth = |op: &str, path: &str, upto: usize| calls[..upto].iter().filter(|(o, p)| o == op && p == path).count();
    let pick_call = |op: &str, rng: &mut Rng, want_target: Option<bool>| -> Option<(String, usize)> {
        let idx: Vec<usize> = calls
            .iter()
            .enumerate()
            .filter(|(_, (o, p))| o == op && want_target.map(|w| (p == t) == w).unwrap_or(true))
            .map(|(i, _)| i)
            .collect();
        if idx.is_empty() {
            return None;
        }
        let i = *rng.pick(&idx);
        Some((calls[i].1.clone(), nth(op, &calls[i].1, i)))
    };
    // only files the fault-free run actually reads can carry a fault that matters
    let sources: Vec<String> = scn.files.keys().filter(|p| calls.iter().any(|(o, q)| o == "open" && q == *p)).cloned().collect();
    if sources.is_empty() {
        return Fault::None;
    }
    match rng.below(12) {
        0 | 1 => {
            if let Some((p, n)) = pick_call("read", rng, Some(false)) {
                return Fault::Benign(format!("read:{p}:{n}:short:{}", 1 + rng.below(9)));
            }
            Fault::None
        }
        2 => {
            if let Some((p, n)) = pick_call("read", rng, Some(false)) {
                return Fault::Benign(format!("read:{p}:{n}:eintr"));
            }
            Fault::None
        }
        3 => {
            if let Some((p, n)) = pick_call("write", rng, Some(true)) {
                if rng.chance(1, 2) {
                    return Fault::Benign(format!("write:{p}:{n}:eintr"));
                }
                return Fault::Benign(format!("write:{p}:{n}:short:{}", 1 + rng.below(200)));
            }
            Fault::None
        }
        4 => {
            if let Some((p, n)) = pick_call("read", rng, Some(false)) {
                return Fault::Hard(format!("read:{p}:{n}:eio"));
            }
            Fault::None
        }
        5 => {
            if let Some((p, n)) = pick_call("open", rng, Some(false)) {
                let a = *rng.pick(&["enoent", "eisdir", "emfile", "eio"]);
                return Fault::Hard(format!("open:{p}:{n}:{a}"));
            }
            Fault::None
        }
        6 => {
            if let Some((p, n)) = pick_call("write", rng, Some(true)) {
                return Fault::Hard(format!("write:{p}:{n}:enospc:{}", rng.below(400)));
            }
            if rng.chance(1, 2) {
                Fault::TargetIsDir
            } else {
                Fault::TargetDevFull
            }
        }
        7 => Fault::CrashAt(rng.below(calls.len() + 2)),
        8 => {
            // a file that is opened twice (the CLI re-reads it to render a report)
            // (only for rejected sources: there the second open is the re-read for the report;
            // accepted sources open a file twice only when two spellings name it)
            let twice: Vec<&String> = sources.iter().filter(|p| calls.iter().filter(|(o, q)| o == "open" && q == *p).count() >= 2).collect();
            if let (Some(p), true) = (twice.first(), reference(scn).is_err()) {
                let alt = if rng.chance(1, 2) { String::new() } else { "let x = num;\n".to_string() };
                return Fault::Flip { path: (*p).clone(), alt };
            }
            Fault::CrashAt(rng.below(calls.len() + 2))
        }
        9 => {
            if rng.chance(1, 2) {
                Fault::TargetIsDir
            } else {
                Fault::TargetDevFull
            }
        }
        10 => {
            let others: Vec<&String> = sources.iter().filter(|p| **p != main_path(scn)).collect();
            if let Some(p) = others.first() {
                Fault::SourceIsDir((*p).clone())
            } else {
                Fault::NonUtf8(main_path(scn))
            }
        }
        _ => {
            if scn.with_base && rng.chance(1, 2) {
                Fault::MalformedBase
            } else {
                Fault::NonUtf8(rng.pick(&sources).clone())
            }
        }
    }
}

fn fault_kind(f: &Fault) -> Option<String> {
    Some(
        match f {
            Fault::None => return None,
            Fault::Benign(p) | Fault::Hard(p) => {
                let parts: Vec<&str> = p.split(':').collect();
                return Some(format!("{}_{}", parts.first().unwrap_or(&"?"), parts.get(3).unwrap_or(&"?")));
            }
            Fault::CrashAt(_) => "crash_at_call",
            Fault::Flip { .. } => "source_changes_between_opens",
            Fault::TargetIsDir => "target_is_directory",
            Fault::TargetDevFull => "target_dev_full",
            Fault::SourceIsDir(_) => "source_is_directory",
            Fault::NonUtf8(_) => "source_not_utf8",
            Fault::MalformedBase => "base_malformed_yaml",
        }
        .to_string(),
    )
}

fn signature(scn: &Scenario, vi: &Violation, under_fault: bool) -> String {
    let phase = match reference(scn) {
        Ok(_) => "accepted".to_string(),
        Err((p, _)) => format!("{p:?}"),
    };
    let fault = if under_fault { fault_kind(&scn.fault).unwrap_or_else(|| "none".into()) } else { "none".into() };
    format!("C13 {} sources={phase} fault={fault}", vi.oracle)
}

pub fn run(seed: u64, run: u64) -> Report {
    let Some(c) = cfg() else {
        return Report {
            sample: json!({"error": "real binaries not built"}),
            ..Default::default()
        };
    };
    let mut wl = Rng::stream(seed, "C13", run, "workload");
    let mut fr = Rng::stream(seed, "C13", run, "faults");
    let mut er = Rng::stream(seed, "C13", run, "env");
    let mut sr = Rng::stream(seed, "C13", run, "schedule");
    let gcfg = GenCfg {
        max_modules: *wl.pick(&[1, 1, 2, 3]),
        min_decls: 1,
        max_decls: 5,
        max_depth: 2,
        examples_bias: 3,
        shadow_bias: 3,
        res_range: (1, 3),
        odd_spellings: wl.chance(1, 3),
        clashing_imports: wl.chance(1, 3),
    };
    let ast = gen::generate(&mut wl, &gcfg);
    let layout = Layout {
        seed: wl.next_u64(),
        multibyte: wl.below(3) as u8,
        crlf: (0..8).map(|_| wl.chance(1, 4)).collect(),
        lone_cr: false,
        comments: true,
        shape: *wl.pick(&[0, 0, 0, 1, 2]),
    };
    let mut files = hist::files_of(&gen::render(&ast, &layout));
    let mut probes: Vec<String> = Vec::new();
    if wl.chance(1, 12) {
        // a source file beyond 64 KiB (and beyond any single read or pipe buffer): a long
        // comment ahead of the module
        let paths: Vec<String> = files.keys().cloned().collect();
        let p = wl.pick(&paths).clone();
        let lines = wl.range(900, 1400);
        let mut pad = String::with_capacity(lines * 80);
        for i in 0..lines {
            pad.push_str(&format!("// {i:05} generated header, do not edit ........................................\n"));
        }
        let t = files.get_mut(&p).unwrap();
        t.insert_str(0, &pad);
        probes.push("source_file_over_64k".into());
    }
    if wl.chance(1, 2) {
        let (phase, f) = hist::inject_error(&files, &mut wl);
        files = f;
        probes.push(format!("error_{phase}"));
    } else {
        probes.push("accepted_sources".into());
    }
    // where the modules live relative to the configuration
    let src_prefix = if wl.chance(1, 3) { "src/".to_string() } else { String::new() };
    if !src_prefix.is_empty() {
        files = files.into_iter().map(|(p, t)| (format!("{src_prefix}{p}"), t)).collect();
        probes.push("sources_in_subdirectory".into());
    }
    let target_rel = match wl.below(10) {
        0..=4 => String::new(),
        5..=7 => "out/api.yaml".to_string(),
        _ => "missing/api.yaml".to_string(),
    };
    if target_rel.starts_with("missing/") {
        probes.push("target_directory_missing".into());
    }
    let verbosity: i8 = *wl.pick(&[0, 0, 0, -1, 1, 2, 3, 4]);
    if verbosity < 0 {
        probes.push("quiet".into());
    }
    if sr.chance(1, 2) {
        // a document of the directory that is not part of the program
        files.insert("scratch.oal".into(), "let unrelated = num;\n".into());
        probes.push("unrelated_document_present".into());
    }
    let folder_b = sr.chance(1, 3);
    if folder_b {
        files.insert("fb/main.oal".into(), "let item = { 'id num };\nres /b on get -> <item>;\n".into());
        probes.push("second_workspace_folder".into());
    }
    let paths: Vec<String> = files.keys().cloned().collect();
    let mut lsp = Vec::new();
    for _ in 0..sr.range(0, 5) {
        lsp.push(match sr.below(4) {
            0 | 1 => LspStep::Open(sr.pick(&paths).clone()),
            2 => LspStep::Close(sr.pick(&paths).clone()),
            _ => LspStep::Idle,
        });
    }
    let mut scn = Scenario {
        files,
        config_mode: wl.below(3) as u8,
        with_base: wl.chance(1, 3),
        prefilled: wl.chance(1, 2),
        hash_seed: er.next_u64(),
        fake_time: 1_700_000_000 + (er.below(3) as i64) * 86_400,
        fault: Fault::None,
        lsp,
        folder_b,
        src_prefix,
        target_rel,
        verbosity,
        long_sentinel: wl.chance(1, 2),
        binary_sentinel: wl.chance(1, 4),
        old_sources: wl.chance(1, 3),
        setting_style: *wl.pick(&[0, 0, 0, 1, 2]),
        folder_b_broken: folder_b && sr.chance(1, 2),
        symlinked: None,
        conf_spelling: *wl.pick(&[0, 0, 1, 1, 2, 3]),
        conf_in_subdir: wl.chance(1, 4),
        decoy_config: *wl.pick(&[0, 1, 1, 2, 3]),
    };
    if scn.config_mode == 0 && scn.decoy_config != 0 {
        probes.push("options_mode_beside_an_unrelated_configuration_file".into());
    }
    if conf_subdir(&scn) {
        probes.push("target_outside_the_configuration_directory".into());
    }
    if wl.chance(1, 8) {
        let cands: Vec<String> = scn.files.keys().filter(|p| !p.ends_with("main.oal") && !p.starts_with("fb/")).cloned().collect();
        if !cands.is_empty() {
            scn.symlinked = Some(wl.pick(&cands).clone());
            probes.push("module_is_a_symbolic_link".into());
        }
    }
    if scn.folder_b_broken {
        // any error will do: the other folder's program is not the one being compiled
        scn.files.insert("fb/main.oal".into(), "let item = { 'id num ;\nres /b on get -> <item>;\n".into());
        probes.push("second_folder_erroneous".into());
    }
    if scn.old_sources {
        probes.push("sources_older_than_target".into());
    }
    probes.push(["config_options", "config_file", "options_override_file"][scn.config_mode as usize].to_string());
    if scn.with_base {
        probes.push("with_base".into());
    }
    if scn.prefilled {
        probes.push("target_prefilled".into());
    }
    let world = World::new();
    // fault-free first: its trace tells where faults can land
    let o0 = execute(&c, &world, &scn);
    scn.fault = gen_fault(&scn, &o0, &mut fr);
    if fr.chance(1, 4) {
        // two faults in one run: both must be absorbed if both are benign; any hard one decides
        let second = gen_fault(&scn, &o0, &mut fr);
        scn.fault = match (scn.fault.clone(), second) {
            (Fault::Benign(a), Fault::Benign(b)) => Fault::Benign(format!("{a};{b}")),
            (Fault::Benign(a), Fault::Hard(b)) | (Fault::Hard(a), Fault::Benign(b)) | (Fault::Hard(a), Fault::Hard(b)) => Fault::Hard(format!("{a};{b}")),
            (f, _) => f,
        };
        if matches!(&scn.fault, Fault::Benign(p) | Fault::Hard(p) if p.contains(';')) {
            probes.push("two_faults_in_one_run".into());
        }
    }
    let chk = run_scenario(&c, &world, &scn);
    let mut fault_kinds = Vec::new();
    if let (Some(k), Some(o1)) = (fault_kind(&scn.fault), &chk.o1) {
        let fired = match &scn.fault {
            Fault::Benign(_) | Fault::Hard(_) | Fault::Flip { .. } | Fault::CrashAt(_) => o1.trace.iter().any(|l| l.contains("fault") || l.contains("EINTR") || l.contains("EIO") || l.contains("ENOSPC") || l.contains("(short)") || l.contains("crash") || l.contains("-> alt")),
            _ => true,
        };
        if fired {
            fault_kinds.push(k.clone());
            if k == "crash_at_call" {
                let wrote = o1.trace.iter().any(|l| l.starts_with("write "));
                probes.push(if wrote { "crash_after_write".into() } else { "crash_before_write".into() });
            }
        }
    }
    if chk.diags > 0 {
        probes.push("lsp_diagnostics_outstanding".into());
    }
    if scn.files.len() == 1 && !scn.with_base {
        probes.push("wasm_compared".into());
    }
    let violation = chk.violation.as_ref().map(|vi| {
        let sig = signature(&scn, vi, chk.under_fault);
        let mut start = scn.clone();
        if !chk.under_fault {
            start.fault = Fault::None;
        }
        let min = minimise(&c, &world, &start, &sig);
        let chk2 = run_scenario(&c, &world, &min);
        let vi2 = chk2.violation.clone().unwrap_or_else(|| vi.clone());
        Found {
            signature: signature(&min, &vi2, chk2.under_fault),
            oracle: vi2.oracle,
            detail: vi2.detail,
            scenario: json!({ "scenario": min }),
        }
    });
    let log = format!("{:?}|{:?}|{:?}|{:?}", chk.o0.exit, chk.o0.trace, chk.o1.as_ref().map(|o| (o.exit, o.trace.clone())), chk.o0.target.as_ref().map(|t| digest64(canonicalise_hash_names(&String::from_utf8_lossy(t)).as_bytes())));
    let nontrivial = chk.o0.exit.is_some();
    Report {
        violation,
        digest: digest64(format!("{:?}{log}", scn.files).as_bytes()),
        interleaving: digest64(format!("{:?}{:?}", chk.o0.trace, chk.o1.as_ref().map(|o| o.trace.clone())).as_bytes()),
        states: vec![],
        nontrivial,
        evals: 1 + chk.o1.is_some() as u64 + 1,
        oracle_checks: 3 + chk.o1.is_some() as u64,
        sim_time_ms: 0,
        probes,
        fault_kinds,
        sample: json!({
            "run": run,
            "files": scn.files,
            "config_mode": scn.config_mode,
            "with_base": scn.with_base,
            "prefilled": scn.prefilled,
            "fault": scn.fault,
            "fault_free_exit": chk.o0.exit,
            "fault_free_trace": chk.o0.trace,
            "faulted_exit": chk.o1.as_ref().map(|o| o.exit),
            "faulted_trace": chk.o1.as_ref().map(|o| o.trace.clone()),
            "lsp_steps": scn.lsp,
        }),
        counters: vec![("cli_processes".into(), 2 + chk.o1.is_some() as u64)],
    }
}

fn minimise(c: &Cfg, world: &World, scn: &Scenario, sig: &str) -> Scenario {
    // bounded effort: every candidate costs several process executions
    let budget = std::cell::Cell::new(120usize);
    let fails = |s: &Scenario| {
        if budget.get() == 0 {
            return false;
        }
        budget.set(budget.get() - 1);
        let r = run_scenario(c, world, s);
        matches!(&r.violation, Some(vi) if signature(s, vi, r.under_fault) == sig)
    };
    let mut cur = scn.clone();
    // simpler configuration first
    for f in [
        |s: &mut Scenario| s.lsp.clear(),
        |s: &mut Scenario| {
            s.folder_b = false;
            s.files.remove("fb/main.oal");
        },
        |s: &mut Scenario| s.with_base = false,
        |s: &mut Scenario| s.config_mode = 0,
        |s: &mut Scenario| s.hash_seed = 0,
    ] {
        let mut cnd = cur.clone();
        f(&mut cnd);
        if fails(&cnd) {
            cur = cnd;
        }
    }
    // lsp steps one by one
    let mut i = 0;
    while i < cur.lsp.len() {
        let mut cnd = cur.clone();
        cnd.lsp.remove(i);
        if fails(&cnd) {
            cur = cnd;
        } else {
            i += 1;
        }
    }
    // lines of the sources
    for p in cur.files.keys().cloned().collect::<Vec<_>>() {
        let mut lines: Vec<String> = cur.files[&p].split_inclusive('\n').map(|s| s.to_string()).collect();
        let mut chunk = (lines.len() / 2).max(1);
        loop {
            let mut i = 0;
            while i < lines.len() {
                let end = (i + chunk).min(lines.len());
                let cand: String = lines[..i].iter().chain(lines[end..].iter()).cloned().collect();
                let mut cnd = cur.clone();
                cnd.files.insert(p.clone(), cand);
                if fails(&cnd) {
                    lines.drain(i..end);
                    cur = cnd;
                } else {
                    i += chunk;
                }
            }
            if chunk == 1 {
                break;
            }
            chunk /= 2;
        }
    }
    cur
}

pub fn replay(doc: &serde_json::Value) -> Result<Option<Found>, String> {
    let scn: Scenario = serde_json::from_value(doc["scenario"].clone()).map_err(|e| e.to_string())?;
    let c = cfg().ok_or("real binaries not built")?;
    let world = World::new();
    let chk = run_scenario(&c, &world, &scn);
    let uf = chk.under_fault;
    Ok(chk.violation.map(|vi| Found {
        signature: signature(&scn, &vi, uf),
        oracle: vi.oracle,
        detail: vi.detail,
        scenario: doc.clone(),
    }))
}
