//! C06 — the environment is the thing varied; the program is fixed within a
//! comparison. In-process tier: hash seed (S2, fresh thread), reused thread after
//! earlier compilations, a second compiler thread alive. Process tier: the real
//! `oal-cli` under LD_PRELOAD (hash seed, fake clock) with ASLR off, plus unpinned runs.

use crate::gen::{self, GenCfg, Layout};
use crate::hashseed::on_fresh_thread;
use crate::pipeline::compile_to_yaml;
use crate::prng::{digest64, Rng};
use crate::report::{Found, Report};
use serde::{Deserialize, Serialize};
use serde_json::json;
use std::collections::BTreeMap;

pub const BASE: &str = "file:///w/";

#[derive(Serialize, Deserialize, Clone, Debug, PartialEq)]
pub enum Env {
    /// Fresh thread, std hash keys derived from `hash_seed`.
    Fresh { hash_seed: u64 },
    /// Fresh thread that first compiles `warmups` other programs (generated from `warm_seed`).
    Reused { hash_seed: u64, warmups: u32, warm_seed: u64 },
    /// A peer thread with its own keys has compiled another program and stays alive
    /// (parked) while this thread compiles.
    PeerAlive { hash_seed: u64, peer_seed: u64, warm_seed: u64 },
    /// Fresh thread that first compiles the previous revision of the *same* files at the
    /// same locations (annotation texts differ, byte offsets do not), then the files.
    Revision { hash_seed: u64 },
    /// The playground entry point `oal_wasm::compile` (native build) on a fresh thread;
    /// `after_revision`: the previous revision of the text was compiled first.
    Wasm { hash_seed: u64, after_revision: bool },
    /// The real oal-cli in a fresh process; `None` = not pinned (real entropy / clock / ASLR).
    Process {
        hash_seed: Option<u64>,
        fake_time: Option<i64>,
        aslr_off: bool,
        /// how the same configuration is named on the command line: 0 options only,
        /// 1 `-c oal.toml`, 2 `-c sub/../oal.toml`, 3 `-c <absolute>/oal.toml`, 4 `-c link/oal.toml` (link -> .)
        #[serde(default)]
        spelling: u8,
        /// 0 default, 1..4 = -v … -vvvv, 5 = -q: logging must not influence the document
        #[serde(default)]
        verbosity: u8,
    },
}

#[derive(Serialize, Deserialize, Clone, Debug)]
pub struct Scenario {
    pub files: BTreeMap<String, String>,
    pub envs: Vec<Env>,
}

fn warm_program(seed: u64, k: u64) -> BTreeMap<String, String> {
    let mut rng = Rng::stream(seed, "C06-warm", k, "workload");
    let ast = gen::generate(&mut rng, &GenCfg::default());
    let layout = Layout {
        seed: k,
        multibyte: 0,
        crlf: vec![false; 8],
        lone_cr: false,
        comments: false,
        shape: 0,
    };
    gen::render(&ast, &layout).into_iter().map(|m| (m.path, m.text)).collect()
}

fn compile_in(files: &BTreeMap<String, String>) -> Result<String, String> {
    compile_to_yaml(BASE, files, "main.oal").map_err(|f| format!("{:?}: {}", f.phase, f.message))
}

pub struct ProcCfg {
    pub cli: String,
    pub shim: String,
    pub scratch: String,
}

pub fn proc_cfg() -> Option<ProcCfg> {
    let cli = format!("{}/oal-cli", std::env::var("OALSIM_REALBIN").ok()?);
    let shim = std::env::var("OALSIM_SHIMLIB").ok()?;
    let scratch = std::env::var("OALSIM_SCRATCH").ok()?;
    if !std::path::Path::new(&cli).exists() || !std::path::Path::new(&shim).exists() {
        return None;
    }
    Some(ProcCfg { cli, shim, scratch })
}

fn write_tree(dir: &str, files: &BTreeMap<String, String>) -> std::io::Result<()> {
    let _ = std::fs::remove_dir_all(dir);
    for (p, text) in files {
        let path = std::path::Path::new(dir).join(p);
        std::fs::create_dir_all(path.parent().unwrap())?;
        std::fs::write(path, text)?;
    }
    Ok(())
}

fn run_process(pc: &ProcCfg, files: &BTreeMap<String, String>, hash_seed: Option<u64>, fake_time: Option<i64>, aslr_off: bool, spelling: u8, verbosity: u8) -> Result<String, String> {
    let dir = format!("{}/c06", pc.scratch);
    write_tree(&dir, files).map_err(|e| format!("harness: {e}"))?;
    // every spelling compiles with the same base description (tags, a security scheme, a
    // response component, paths and schemas of its own that must be replaced)
    let base = "openapi: 3.0.3\ninfo:\n  title: Base\n  version: 1.2.3\ntags:\n- name: zeta\n- name: alpha\nservers:\n- url: https://b.example/\n- url: https://a.example/\npaths:\n  /old:\n    get:\n      responses: {}\ncomponents:\n  schemas:\n    Old:\n      type: string\n  securitySchemes:\n    zkey:\n      type: http\n      scheme: bearer\n    akey:\n      type: apiKey\n      name: k\n      in: header\n";
    std::fs::write(format!("{dir}/base.yaml"), base).map_err(|e| format!("harness: {e}"))?;
    std::fs::write(format!("{dir}/oal.toml"), "[api]\nmain = \"main.oal\"\ntarget = \"out.yaml\"\nbase = \"base.yaml\"\n").map_err(|e| format!("harness: {e}"))?;
    let _ = std::fs::create_dir_all(format!("{dir}/sub"));
    let _ = std::os::unix::fs::symlink(".", format!("{dir}/link"));
    let mut cmd = if aslr_off {
        let mut c = std::process::Command::new("setarch");
        c.arg("-R").arg(&pc.cli);
        c
    } else {
        std::process::Command::new(&pc.cli)
    };
    match spelling {
        1 => cmd.args(["-c", "oal.toml"]),
        2 => cmd.args(["-c", "sub/../oal.toml"]),
        3 => cmd.args(["-c", &format!("{dir}/oal.toml")]),
        4 => cmd.args(["-c", "link/oal.toml"]),
        7 => cmd.args(["-c", &format!("{dir}/link/oal.toml")]),
        _ => cmd.args(["-m", "main.oal", "-t", "out.yaml", "-b", "base.yaml"]),
    };
    match verbosity {
        1 => cmd.arg("-v"),
        2 => cmd.arg("-vv"),
        3 => cmd.arg("-vvv"),
        4 => cmd.arg("-vvvv"),
        5 => cmd.arg("-q"),
        _ => &mut cmd,
    };
    // the working directory as a shell would hand it over: reached directly, or through a
    // symbolic link with $PWD saying so (after `cd link`), or directly with a $PWD that names
    // the link
    match spelling {
        5 => cmd.current_dir(format!("{dir}/link")).env("PWD", format!("{dir}/link")),
        6 => cmd.current_dir(&dir).env("PWD", format!("{dir}/link")),
        _ => cmd.current_dir(&dir).env("PWD", &dir),
    };
    if hash_seed.is_some() || fake_time.is_some() {
        cmd.env("LD_PRELOAD", &pc.shim);
    }
    if let Some(h) = hash_seed {
        cmd.env("VERIF_HASH_SEED", h.to_string());
    }
    if let Some(t) = fake_time {
        cmd.env("VERIF_FAKE_TIME", t.to_string());
    }
    let out = cmd.output().map_err(|e| format!("harness: spawn: {e}"))?;
    if !out.status.success() {
        return Err(format!("exit {:?}: {}", out.status.code(), String::from_utf8_lossy(&out.stderr)));
    }
    let y = std::fs::read_to_string(format!("{dir}/out.yaml")).map_err(|e| format!("no output: {e}"))?;
    // The process compiles at file://<dir>/…; implicit component names hash that location.
    Ok(y)
}

/// Executes one environment; `Err` carries the failure text.
pub fn execute(files: &BTreeMap<String, String>, env: &Env, pc: Option<&ProcCfg>) -> Result<String, String> {
    match env.clone() {
        Env::Fresh { hash_seed } => {
            let f = files.clone();
            on_fresh_thread(hash_seed, 64, move || compile_in(&f)).unwrap_or_else(|p| Err(format!("panic: {p}")))
        }
        Env::Reused { hash_seed, warmups, warm_seed } => {
            let f = files.clone();
            on_fresh_thread(hash_seed, 64, move || {
                for k in 0..warmups {
                    let _ = compile_in(&warm_program(warm_seed, k as u64));
                }
                compile_in(&f)
            })
            .unwrap_or_else(|p| Err(format!("panic: {p}")))
        }
        Env::Revision { hash_seed } => {
            let f = files.clone();
            let prev: BTreeMap<String, String> = files.iter().map(|(p, t)| (p.clone(), gen::annotation_twist(t))).collect();
            on_fresh_thread(hash_seed, 64, move || {
                let _ = compile_in(&prev);
                compile_in(&f)
            })
            .unwrap_or_else(|p| Err(format!("panic: {p}")))
        }
        Env::PeerAlive { hash_seed, peer_seed, warm_seed } => {
            let (tx, rx) = std::sync::mpsc::channel::<()>();
            let (tx2, rx2) = std::sync::mpsc::channel::<()>();
            let peer = std::thread::Builder::new()
                .stack_size(64 << 20)
                .spawn(move || {
                    crate::hashseed::set_thread_seed(peer_seed);
                    let _ = compile_in(&warm_program(warm_seed, 0));
                    let _ = tx2.send(());
                    let _ = rx.recv(); // stay alive, thread-locals intact
                })
                .unwrap();
            let _ = rx2.recv();
            let f = files.clone();
            let r = on_fresh_thread(hash_seed, 64, move || compile_in(&f)).unwrap_or_else(|p| Err(format!("panic: {p}")));
            let _ = tx.send(());
            let _ = peer.join();
            r
        }
        Env::Wasm { hash_seed, after_revision } => {
            let text = files.get("main.oal").cloned().unwrap_or_default();
            let r = on_fresh_thread(hash_seed, 64, move || {
                let run = |t: &str| {
                    let t = t.to_string();
                    std::panic::catch_unwind(move || oal_wasm::compile(&t))
                };
                if after_revision {
                    let _ = run(&gen::annotation_twist(&text));
                }
                let r = run(&text);
                // oal-wasm installs its own panic hook on first use: keep the simulator quiet
                std::panic::set_hook(Box::new(|_| {}));
                match r {
                    Ok(c) if c.error.is_empty() => Ok(c.api),
                    Ok(c) => Err(c.error),
                    Err(_) => Err("panic".to_string()),
                }
            });
            r.unwrap_or_else(|p| Err(format!("panic: {p}")))
        }
        Env::Process { hash_seed, fake_time, aslr_off, spelling, verbosity } => match pc {
            Some(pc) => run_process(pc, files, hash_seed, fake_time, aslr_off, spelling, verbosity),
            None => Err("harness: real binaries not available".into()),
        },
    }
}

fn is_process(e: &Env) -> bool {
    matches!(e, Env::Process { .. })
}

/// Documents are compared within a group: the location (and with it the implicit
/// component names) differs between the in-process loader, the CLI's directory and wasm.
fn group_of(e: &Env) -> u8 {
    match e {
        Env::Process { .. } => 1,
        Env::Wasm { .. } => 2,
        _ => 0,
    }
}

/// Runs all environments and compares the documents byte for byte
/// (in-process and process documents are compared within their own group: the
/// location, and with it the implicit component names, differs between groups).
pub fn compare(scn: &Scenario, pc: Option<&ProcCfg>) -> (Option<(String, String)>, Vec<Result<String, String>>) {
    let outs: Vec<Result<String, String>> = scn.envs.iter().map(|e| execute(&scn.files, e, pc)).collect();
    for group in [0u8, 1, 2] {
        let idx: Vec<usize> = (0..scn.envs.len()).filter(|i| group_of(&scn.envs[*i]) == group).collect();
        for w in idx.windows(2) {
            let (a, b) = (&outs[w[0]], &outs[w[1]]);
            if a.as_ref().err().map(|e| e.starts_with("harness:")).unwrap_or(false) || b.as_ref().err().map(|e| e.starts_with("harness:")).unwrap_or(false) {
                continue;
            }
            if a != b {
                let what = match (a, b) {
                    (Ok(x), Ok(y)) => {
                        let (la, lb): (Vec<&str>, Vec<&str>) = (x.lines().collect(), y.lines().collect());
                        let k = la.iter().zip(lb.iter()).position(|(p, q)| p != q).unwrap_or(la.len().min(lb.len()));
                        format!(
                            "documents differ at line {}: {:?} vs {:?} under {:?} / {:?}",
                            k + 1,
                            la.get(k).unwrap_or(&"<eof>"),
                            lb.get(k).unwrap_or(&"<eof>"),
                            scn.envs[w[0]],
                            scn.envs[w[1]]
                        )
                    }
                    _ => format!("one environment failed: {:?} vs {:?}", a.as_ref().err(), b.as_ref().err()),
                };
                return (Some(("output-differs".to_string(), what)), outs);
            }
        }
    }
    (None, outs)
}

fn signature(scn: &Scenario, detail: &str, outs: &[Result<String, String>]) -> String {
    // Identify *what* is reordered: compare the two differing documents as YAML values.
    // If they are equal as (unordered) values and every differing line sits inside an
    // `examples:` mapping, the finding is the examples-order one; anything else is new.
    let oks: Vec<&String> = outs.iter().filter_map(|o| o.as_ref().ok()).collect();
    let mut site = "other";
    'outer: for i in 0..oks.len() {
        for j in i + 1..oks.len() {
            if oks[i] != oks[j] {
                site = diff_site(oks[i], oks[j]);
                break 'outer;
            }
        }
    }
    let _ = (scn, detail);
    format!("C06 output-differs site={site}")
}

/// "examples-order" iff the two documents are the same YAML value once every mapping
/// under an `examples` key is treated as unordered; else "other".
fn diff_site(a: &str, b: &str) -> &'static str {
    let (Ok(va), Ok(vb)) = (serde_yaml::from_str::<serde_yaml::Value>(a), serde_yaml::from_str::<serde_yaml::Value>(b)) else {
        return "other";
    };
    fn norm(v: &serde_yaml::Value, under_examples: bool) -> serde_yaml::Value {
        match v {
            serde_yaml::Value::Mapping(m) => {
                let mut items: Vec<(serde_yaml::Value, serde_yaml::Value)> = m
                    .iter()
                    .map(|(k, x)| (k.clone(), norm(x, k.as_str() == Some("examples"))))
                    .collect();
                if under_examples {
                    items.sort_by(|p, q| p.0.as_str().unwrap_or("").cmp(q.0.as_str().unwrap_or("")));
                }
                serde_yaml::Value::Mapping(items.into_iter().collect())
            }
            serde_yaml::Value::Sequence(s) => serde_yaml::Value::Sequence(s.iter().map(|x| norm(x, false)).collect()),
            o => o.clone(),
        }
    }
    let (na, nb) = (norm(&va, false), norm(&vb, false));
    if serde_yaml::to_string(&na).ok() == serde_yaml::to_string(&nb).ok() {
        "examples-order"
    } else {
        "other"
    }
}

fn gen_envs(rng: &mut Rng, n: usize) -> Vec<Env> {
    let mut v = Vec::new();
    for i in 0..n {
        let hash_seed = rng.next_u64();
        v.push(match if i == 0 { 0 } else { rng.below(8) } {
            6..=7 => Env::Revision { hash_seed },
            0..=2 => Env::Fresh { hash_seed },
            3..=4 => Env::Reused {
                hash_seed,
                warmups: rng.range(1, 5) as u32,
                warm_seed: rng.next_u64() % 1_000_000,
            },
            _ => Env::PeerAlive {
                hash_seed,
                peer_seed: rng.next_u64(),
                warm_seed: rng.next_u64() % 1_000_000,
            },
        });
    }
    v
}

const TAGS_WITH_SIDE_EFFECTS: &str = "let @zz_window = { 'w num };
let @zz_quota = { 'q num };
let @zz_kind = { 'k str };
let zz_code x = 200;
let zz_rate x = { 'X-Rate int };
let zz_media x = \"application/json\";
let zz_tree k v = rec t { 'key k, 'val v, 'kids [t] };
res /zz-tags on get -> <status=(zz_code @zz_window), headers=(zz_rate @zz_quota), media=(zz_media @zz_kind), {}>;
res /zz-tags2 on put -> <status=(zz_code (zz_tree num str)), headers=(zz_rate (zz_tree str num)), {}>;
res /zz-media on get -> <status=200, media=\"application/json\", { 'a num }> :: <status=200, media=\"Application/JSON\", { 'b str }> :: <status=404, media=\"text/plain\", str>;
use \"zz_dup_a.oal\" as zz_dup_a;
use \"zz_dup_b.oal\" as zz_dup_b;
res /zz-dup on get -> <zz_dup_a.@zz_item>;
";
/// two imported modules that declare one reference name differently (whichever is evaluated
/// first is the component; in source order that is always the same one)
const DUP_A: &str = "let @zz_item = { 'fromA num };\n";
const DUP_B: &str = "let @zz_item = { 'fromB str };\n";

pub fn c06_cfg(rng: &mut Rng) -> GenCfg {
    if rng.chance(1, 8) {
        // a large main module: the parser's memo table and the arenas grow well past
        // the sizes any small program reaches
        return GenCfg {
            max_modules: rng.range(1, 2),
            min_decls: 8,
            max_decls: 16,
            max_depth: 3,
            examples_bias: 5,
            shadow_bias: 3,
            res_range: (60, 110),
            odd_spellings: false,
            clashing_imports: false,
        };
    }
    GenCfg {
        max_modules: rng.range(1, 4),
        min_decls: 3,
        max_decls: rng.range(4, 10),
        max_depth: 3,
        examples_bias: 8,
        shadow_bias: 3,
        res_range: (1, 3),
        odd_spellings: rng.chance(1, 4),
        clashing_imports: rng.chance(1, 2),
    }
}

pub fn run(seed: u64, run: u64) -> Report {
    let mut wl = Rng::stream(seed, "C06", run, "workload");
    let mut er = Rng::stream(seed, "C06", run, "env");
    let cfg = c06_cfg(&mut wl);
    let ast = gen::generate(&mut wl, &cfg);
    let layout = Layout {
        seed: run,
        multibyte: (run % 3) as u8,
        crlf: vec![false; 8],
        lone_cr: false,
        comments: true,
        shape: [0, 0, 0, 1, 2][(run % 5) as usize],
    };
    let mut files: BTreeMap<String, String> = gen::render(&ast, &layout).into_iter().map(|m| (m.path, m.text)).collect();
    // one run in four: transfers whose `status=`, `headers=` and `media=` are applications with
    // side effects of their own (they introduce references, they hold a recursion) — whichever
    // is evaluated first shows in the order and the names of the components
    let side_effect_tags = er.chance(1, 4);
    if side_effect_tags {
        if let Some(t) = files.get_mut("main.oal") {
            if !t.ends_with('\n') {
                t.push('\n');
            }
            t.push_str(TAGS_WITH_SIDE_EFFECTS);
        }
        files.insert("zz_dup_a.oal".into(), DUP_A.into());
        files.insert("zz_dup_b.oal".into(), DUP_B.into());
    }
    let thorough = std::env::var("OALSIM_TIER").map(|t| t == "thorough").unwrap_or(false);
    let n_env = if thorough { 8 } else { 6 };
    let mut envs = gen_envs(&mut er, n_env);
    // Process tier on a fraction of the runs.
    let pc = proc_cfg();
    let with_proc = pc.is_some() && run % 8 == 0;
    if with_proc {
        let day = 86_400i64;
        let t0 = 1_700_000_000i64;
        let h1 = er.next_u64();
        let h2 = er.next_u64();
        let sp = |er: &mut Rng| er.below(8) as u8;
        envs.push(Env::Process { hash_seed: Some(h1), fake_time: Some(t0), aslr_off: true, spelling: 0, verbosity: 0 });
        envs.push(Env::Process { hash_seed: Some(h2), fake_time: Some(t0), aslr_off: true, spelling: sp(&mut er), verbosity: er.below(6) as u8 });
        envs.push(Env::Process { hash_seed: Some(h2), fake_time: Some(t0 + day), aslr_off: true, spelling: sp(&mut er), verbosity: er.below(6) as u8 });
        envs.push(Env::Process { hash_seed: None, fake_time: None, aslr_off: false, spelling: sp(&mut er), verbosity: er.below(6) as u8 });
        if thorough {
            envs.push(Env::Process { hash_seed: Some(er.next_u64()), fake_time: Some(t0 + 2 * day), aslr_off: true, spelling: sp(&mut er), verbosity: er.below(6) as u8 });
            envs.push(Env::Process { hash_seed: None, fake_time: None, aslr_off: false, spelling: sp(&mut er), verbosity: er.below(6) as u8 });
        }
    }
    if files.len() == 1 {
        // the playground entry point, twice (different hash seeds; once after the previous revision)
        envs.push(Env::Wasm { hash_seed: er.next_u64(), after_revision: false });
        envs.push(Env::Wasm { hash_seed: er.next_u64(), after_revision: true });
    }
    let scn = Scenario { files, envs };
    let (v, outs) = compare(&scn, pc.as_ref());

    let mut probes: Vec<String> = Vec::new();
    if side_effect_tags {
        probes.push("transfer_tags_with_side_effects".into());
    }
    if cfg.res_range.0 >= 60 {
        probes.push("large_module".into());
    }
    for f in ["qualifier_spelled_like_a_member", "unqualified_imports_share_a_name", "qualifier_used_by_two_imports", "odd_import_spelling", "examples_multi", "multi_module", "reference", "ranges_multi", "scope_multi_param", "rec", "recursive_declaration", "tags_annotation"] {
        if ast.features.contains(f) {
            probes.push(match f {
                "reference" => "refs_present".to_string(),
                x => x.to_string(),
            });
        }
    }
    let mut kinds: Vec<String> = Vec::new();
    for e in &scn.envs {
        kinds.push(
            match e {
                Env::Fresh { .. } => "hash_seed_fresh_thread",
                Env::Reused { .. } => "reused_thread_after_warmups",
                Env::PeerAlive { .. } => "second_compiler_thread_alive",
                Env::Revision { .. } => "previous_revision_compiled_on_same_thread",
                Env::Wasm { .. } => "wasm_entry_point",
                Env::Process { hash_seed: Some(_), .. } => "process_pinned_seed_and_clock",
                Env::Process { .. } => "process_unpinned",
            }
            .to_string(),
        );
        if matches!(e, Env::Reused { .. }) {
            probes.push("reused_thread".into());
        }
    }
    if with_proc {
        probes.push("fake_time_differs".into());
        probes.push("config_path_spellings".into());
        probes.push("process_tier".into());
    }
    probes.sort();
    probes.dedup();
    let accepted = outs.first().map(|o| o.is_ok()).unwrap_or(false);
    let mut counters = vec![("compilations".to_string(), outs.len() as u64)];
    if !accepted {
        counters.push(("generator_rejected".to_string(), 1));
    }
    // Implicit component names hash the absolute location (the scratch directory of the
    // process tier differs between workers): canonicalise them for the digest only.
    let log = format!(
        "{:?}",
        outs.iter()
            .map(|o| o.as_ref().map(|s| digest64(crate::pipeline::canonicalise_hash_names(s).as_bytes())).map_err(|e| e.clone()))
            .collect::<Vec<_>>()
    );
    let violation = v.map(|(oracle, detail)| {
        let min = minimise(&ast, &layout, &scn, pc.as_ref());
        let (v2, outs2) = compare(&min, pc.as_ref());
        let detail = v2.map(|x| x.1).unwrap_or(detail);
        Found {
            signature: signature(&min, &detail, if outs2.is_empty() { &outs } else { &outs2 }),
            oracle,
            detail,
            scenario: json!({ "scenario": min }),
        }
    });
    let first = outs.first().and_then(|o| o.as_ref().ok()).cloned().unwrap_or_default();
    Report {
        violation,
        digest: digest64(format!("{:?}{}", scn.files, log).as_bytes()),
        interleaving: digest64(format!("{:?}", scn.envs).as_bytes()),
        states: vec![],
        nontrivial: accepted && (ast.features.contains("examples_multi") || ast.features.contains("multi_module") || ast.features.contains("reference")),
        evals: outs.len() as u64,
        oracle_checks: outs.len().saturating_sub(1) as u64,
        sim_time_ms: 0,
        probes,
        fault_kinds: kinds,
        sample: json!({
            "run": run,
            "files": scn.files,
            "environments": scn.envs,
            "document_bytes": first.len(),
            "document_sha": format!("{:016x}", digest64(first.as_bytes())),
        }),
        counters,
    }
}

/// Shrinks the program (dropping statements while it stays accepted and the same
/// oracle fires) and the environment list (down to one differing pair).
fn minimise(ast: &gen::ProgramAst, layout: &Layout, scn: &Scenario, pc: Option<&ProcCfg>) -> Scenario {
    // bounded effort: large modules have hundreds of statements
    let budget = std::cell::Cell::new(400usize);
    let fails = |s: &Scenario| {
        if budget.get() == 0 {
            return false;
        }
        budget.set(budget.get() - 1);
        compare(s, pc).0.is_some()
    };
    let mut cur = scn.clone();
    // 1. environments: find one failing pair
    'pair: for i in 0..scn.envs.len() {
        for j in i + 1..scn.envs.len() {
            if group_of(&scn.envs[i]) != group_of(&scn.envs[j]) {
                continue;
            }
            let c = Scenario {
                files: scn.files.clone(),
                envs: vec![scn.envs[i].clone(), scn.envs[j].clone()],
            };
            if fails(&c) {
                cur = c;
                break 'pair;
            }
        }
    }
    // simplify environments to Fresh where that keeps failing
    for k in 0..cur.envs.len() {
        let hs = match &cur.envs[k] {
            Env::Reused { hash_seed, .. } | Env::PeerAlive { hash_seed, .. } | Env::Revision { hash_seed } => Some(*hash_seed),
            _ => None,
        };
        if let Some(h) = hs {
            let mut c = cur.clone();
            c.envs[k] = Env::Fresh { hash_seed: h };
            if fails(&c) {
                cur = c;
            }
        }
    }
    // 2. statements
    let mut a = ast.clone();
    let plain = Layout {
        seed: layout.seed,
        multibyte: 0,
        crlf: vec![false; 8],
        lone_cr: false,
        comments: false,
        shape: 0,
    };
    let files_of = |a: &gen::ProgramAst, l: &Layout| -> BTreeMap<String, String> { gen::render(a, l).into_iter().map(|m| (m.path, m.text)).collect() };
    {
        let c = Scenario {
            files: files_of(&a, &plain),
            envs: cur.envs.clone(),
        };
        if fails(&c) {
            cur = c;
        } else {
            return cur;
        }
    }
    let mut progress = true;
    while progress {
        progress = false;
        for m in 0..a.modules.len() {
            let mut s = 0;
            while s < a.modules[m].stmts.len() {
                if a.modules[m].stmts[s].kind == gen::StmtKind::Import {
                    s += 1;
                    continue;
                }
                let mut b = a.clone();
                b.modules[m].stmts.remove(s);
                let c = Scenario {
                    files: files_of(&b, &plain),
                    envs: cur.envs.clone(),
                };
                if compile_in(&c.files).is_ok() && fails(&c) {
                    a = b;
                    cur = c;
                    progress = true;
                } else {
                    s += 1;
                }
            }
        }
    }
    cur
}

pub fn replay(doc: &serde_json::Value) -> Result<Option<Found>, String> {
    let scn: Scenario = serde_json::from_value(doc["scenario"].clone()).map_err(|e| e.to_string())?;
    let pc = proc_cfg();
    // An unpinned process pair may need repeats to show again; pinned ones are exact.
    let unpinned = scn.envs.iter().any(|e| matches!(e, Env::Process { hash_seed: None, .. }));
    let tries = if unpinned { 50 } else { 1 };
    for _ in 0..tries {
        let (v, outs) = compare(&scn, pc.as_ref());
        if let Some((oracle, detail)) = v {
            return Ok(Some(Found {
                signature: signature(&scn, &detail, &outs),
                oracle,
                detail,
                scenario: doc.clone(),
            }));
        }
    }
    Ok(None)
}
