//! Seeded generator of multi-module Oxlip programs together with their
//! *binding table* (use occurrence → binder), computed by the generator's own
//! lexical resolver. Shares no code with the compiler's resolver; the table is
//! the reference model for C17/C18 and the programs are the workload of every
//! simulator. The generator never assumes acceptance: simulators ask the real
//! compiler.

use crate::prng::Rng;
use serde::Serialize;
use std::collections::BTreeSet;

#[derive(Clone, Copy, PartialEq, Eq, Debug, Serialize)]
pub enum SK {
    Prim,
    Obj,
    Arr,
    Uri,
    Any,
}

#[derive(Clone, Copy, PartialEq, Eq, Debug, Serialize)]
pub enum Kind {
    S(SK),
    Prop(SK),
    Content,
    Ranges,
    Transfer,
    Rel,
    Text,
    Status,
}

#[derive(Clone, Copy, PartialEq, Eq, Debug, Serialize)]
pub enum Role {
    DeclName,
    Param,
    RecBinder,
    QualDef,
    Use,
    QualUse,
}

#[derive(Clone, Copy, PartialEq, Eq, Debug, Serialize)]
pub enum BinderKind {
    Decl,
    Param,
    Rec,
    Qualifier,
}

#[derive(Clone, Debug, Serialize)]
pub struct Binder {
    pub kind: BinderKind,
    pub module: usize,
    pub name: String,
    /// For Param/Rec binders: the binder of the enclosing declaration.
    pub owner: Option<usize>,
    pub is_function: bool,
    pub is_reference: bool,
    /// the declaration's value is a schema (usable as a content body)
    #[serde(default)]
    pub is_schema: bool,
}

#[derive(Clone, Debug)]
pub struct Occ {
    pub role: Role,
    /// Global binder id this occurrence names (binding occurrences) or is bound to (uses).
    /// `None` for built-ins.
    pub binder: Option<usize>,
}

#[derive(Clone, Debug)]
pub struct Tok {
    pub text: String,
    /// No trivia may precede this token (URI paths, `m.f`).
    pub tight: bool,
    /// A newline must follow (line annotations).
    pub eol: bool,
    pub occ: Option<Occ>,
}

fn t(s: &str) -> Tok {
    Tok {
        text: s.to_string(),
        tight: false,
        eol: false,
        occ: None,
    }
}

fn tt(s: &str) -> Tok {
    Tok {
        text: s.to_string(),
        tight: true,
        eol: false,
        occ: None,
    }
}

#[derive(Clone, Debug, PartialEq, Eq)]
pub enum StmtKind {
    Import,
    Decl,
    Res,
    Raw,
}

#[derive(Clone, Debug)]
pub struct Stmt {
    pub kind: StmtKind,
    pub toks: Vec<Tok>,
}

#[derive(Clone, Debug)]
pub struct ModuleAst {
    pub path: String,
    pub stmts: Vec<Stmt>,
}

#[derive(Clone, Debug)]
pub struct ProgramAst {
    pub modules: Vec<ModuleAst>,
    pub binders: Vec<Binder>,
    pub features: BTreeSet<&'static str>,
}

// ------------------------------------------------------------------ generation state

#[derive(Clone, Debug)]
struct Decl {
    name: String,
    kind: Kind,
    params: Vec<(String, Kind)>,
    binder: usize,
    /// For Prop(Prim) declarations: the literal property name (known statically).
    prop_name: Option<String>,
    /// This function only forwards to another one, passing its own first parameter - which
    /// carries the name of the callee's *first* parameter - in the callee's *last* position.
    delegate: Option<Delegate>,
}

#[derive(Clone, Debug)]
struct Delegate {
    qualifier: Option<(String, usize)>,
    name: String,
    binder: usize,
    params: Vec<(String, Kind)>,
}

#[derive(Clone, Debug)]
struct ImportSt {
    module: usize,
    qualifier: Option<(String, usize)>,
}

#[derive(Clone, Debug, Default)]
struct ModSt {
    decls: Vec<Decl>,
    imports: Vec<ImportSt>,
}

#[derive(Clone, Debug)]
struct Local {
    name: String,
    kind: Kind,
    binder: usize,
}

struct Cx<'a> {
    rng: &'a mut Rng,
    m: usize,
    mods: &'a Vec<ModSt>,
    /// declarations of module `m` usable here (already generated → no accidental cycles)
    own: Vec<Decl>,
    /// the declaration currently being generated, if it may refer to itself (recursive objects)
    self_ref: Option<(String, usize)>,
    params: Vec<Local>,
    recs: Vec<Local>,
    uniq: &'a mut u32,
    binders: &'a mut Vec<Binder>,
    features: &'a mut BTreeSet<&'static str>,
    cfg: &'a GenCfg,
    /// names of all declarations of module m (including those not generated yet) for the resolver
    all_own_names: &'a Vec<(String, usize)>,
    cur_decl: Option<usize>,
    in_function: bool,
}

#[derive(Clone, Debug)]
pub struct GenCfg {
    pub max_modules: usize,
    pub min_decls: usize,
    pub max_decls: usize,
    pub max_depth: usize,
    /// weight (0..10) of examples annotations with several entries
    pub examples_bias: usize,
    pub shadow_bias: usize,
    /// number of `res` statements of the main module
    pub res_range: (usize, usize),
    /// imports may be spelled legally but not canonically: a needless percent escape, an
    /// empty path segment, a fragment or a query (file-system front ends only)
    pub odd_spellings: bool,
    /// two imports of one module may share a qualifier, or both be unqualified, although the
    /// imported modules declare a common name (accepted: the later import wins)
    pub clashing_imports: bool,
}

impl Default for GenCfg {
    fn default() -> Self {
        GenCfg {
            max_modules: 4,
            min_decls: 2,
            max_decls: 7,
            max_depth: 3,
            examples_bias: 3,
            shadow_bias: 4,
            res_range: (1, 3),
            odd_spellings: false,
            clashing_imports: false,
        }
    }
}

const POOL: &[&str] = &[
    "a", "b", "c", "x", "y", "item", "node", "f", "g", "h", "it-em", "n$1", "_u", "val", "person", "name_", "k", "w", "page", "err", "Res", "uri2", "a1", "X", "get_",
];
const QUALS: &[&str] = &["m", "lib", "q", "mod_", "z"];
const MEDIA: &[&str] = &["application/json", "application/problem+json", "application/vnd.x+json", "text/plain"];
const METHODS: &[&str] = &["get", "put", "post", "patch", "delete", "options", "head"];

enum Found {
    Binder(usize),
    Builtin,
    Nothing,
}

impl Cx<'_> {
    fn fresh(&mut self) -> u32 {
        *self.uniq += 1;
        *self.uniq
    }

    /// The reference lexical resolver: innermost rec, then parameters, then the
    /// module's declarations regardless of textual order, then imports by
    /// (name, qualifier), then built-ins.
    fn resolve(&self, qualifier: Option<&str>, name: &str) -> Found {
        if qualifier.is_none() {
            for l in self.recs.iter().rev() {
                if l.name == name {
                    return Found::Binder(l.binder);
                }
            }
            for l in self.params.iter().rev() {
                if l.name == name {
                    return Found::Binder(l.binder);
                }
            }
            for (n, b) in self.all_own_names.iter() {
                if n == name {
                    return Found::Binder(*b);
                }
            }
        }
        // imports: the last matching import (in source order) wins, as in the compiler
        for imp in self.mods[self.m].imports.iter().rev() {
            let q = imp.qualifier.as_ref().map(|(q, _)| q.as_str());
            if q == qualifier {
                for d in self.mods[imp.module].decls.iter() {
                    if d.name == name {
                        return Found::Binder(d.binder);
                    }
                }
            }
        }
        if qualifier.is_none() && name == "concat" {
            return Found::Builtin;
        }
        Found::Nothing
    }

    fn use_tok(&mut self, qualifier: Option<(String, usize)>, name: &str, binder: Option<usize>) -> Vec<Tok> {
        let mut v = Vec::new();
        if let Some((q, qb)) = qualifier {
            v.push(Tok {
                text: q,
                tight: false,
                eol: false,
                occ: Some(Occ {
                    role: Role::QualUse,
                    binder: Some(qb),
                }),
            });
            v.push(tt("."));
            v.push(Tok {
                text: name.to_string(),
                tight: true,
                eol: false,
                occ: Some(Occ {
                    role: Role::Use,
                    binder,
                }),
            });
            self.features.insert("qualified_use");
        } else {
            v.push(Tok {
                text: name.to_string(),
                tight: false,
                eol: false,
                occ: Some(Occ {
                    role: Role::Use,
                    binder,
                }),
            });
        }
        v
    }

    /// All variables of the wanted kind that the *lexical* rules let this position name.
    fn var_candidates(&self, want: impl Fn(&Kind) -> bool, functions: bool) -> Vec<(Option<(String, usize)>, String, usize, Vec<(String, Kind)>, Kind)> {
        let mut out = Vec::new();
        let mut push = |q: Option<(String, usize)>, name: &str, binder: usize, params: &Vec<(String, Kind)>, kind: Kind, cx: &Cx| {
            if params.is_empty() == functions {
                return;
            }
            if !want(&kind) {
                return;
            }
            match cx.resolve(q.as_ref().map(|(q, _)| q.as_str()), name) {
                Found::Binder(b) if b == binder => out.push((q, name.to_string(), binder, params.clone(), kind)),
                _ => {}
            }
        };
        let none = Vec::new();
        if !functions {
            for l in self.recs.iter() {
                push(None, &l.name, l.binder, &none, l.kind, self);
            }
            for l in self.params.iter() {
                push(None, &l.name, l.binder, &none, l.kind, self);
            }
        }
        for d in self.own.iter() {
            push(None, &d.name, d.binder, &d.params, d.kind, self);
        }
        for imp in self.mods[self.m].imports.iter() {
            for d in self.mods[imp.module].decls.iter() {
                push(imp.qualifier.clone(), &d.name, d.binder, &d.params, d.kind, self);
            }
        }
        out
    }

    fn note_shadow(&mut self, binder: usize) {
        match self.binders[binder].kind {
            BinderKind::Param => {
                let n = self.binders[binder].name.clone();
                if self.all_own_names.iter().any(|(x, _)| *x == n) || self.imported_flat_names().contains(&n) {
                    self.features.insert("shadowed_by_parameter");
                }
                self.features.insert("parameter_use");
            }
            BinderKind::Rec => {
                let n = self.binders[binder].name.clone();
                if self.params.iter().any(|p| p.name == n) || self.all_own_names.iter().any(|(x, _)| *x == n) {
                    self.features.insert("shadowed_by_rec");
                }
                self.features.insert("rec_use");
            }
            BinderKind::Decl => {
                if self.binders[binder].module != self.m {
                    self.features.insert("imported_use");
                }
            }
            _ => {}
        }
    }

    fn imported_flat_names(&self) -> Vec<String> {
        let mut v = Vec::new();
        for imp in self.mods[self.m].imports.iter() {
            if imp.qualifier.is_none() {
                for d in self.mods[imp.module].decls.iter() {
                    v.push(d.name.clone());
                }
            }
        }
        v
    }

    /// A variable (or application) of kind `k`, if one is nameable here. Returns (tokens, closed).
    fn try_var(&mut self, k: Kind, depth: usize) -> Option<(Vec<Tok>, bool)> {
        let vars = self.var_candidates(|x| *x == k, false);
        let funs = if depth > 0 { self.var_candidates(|x| *x == k, true) } else { Vec::new() };
        let total = vars.len() + funs.len();
        if total == 0 {
            return None;
        }
        let i = self.rng.below(total);
        if i < vars.len() {
            let (q, name, b, _, _) = vars[i].clone();
            self.note_shadow(b);
            Some((self.use_tok(q, &name, Some(b)), true))
        } else {
            let (q, name, b, params, _) = funs[i - vars.len()].clone();
            let mut v = self.use_tok(q, &name, Some(b));
            for (_, pk) in params.iter() {
                let arg = self.term(*pk, depth - 1);
                v.extend(arg);
            }
            self.features.insert("application");
            Some((v, false))
        }
    }

    fn parens(&mut self, v: Vec<Tok>) -> Vec<Tok> {
        let mut out = vec![t("(")];
        out.extend(v);
        out.push(t(")"));
        out
    }

    /// An expression of kind `k` usable where the grammar wants a terminal.
    fn term(&mut self, k: Kind, depth: usize) -> Vec<Tok> {
        let (v, closed) = self.expr(k, depth);
        if closed {
            v
        } else {
            self.parens(v)
        }
    }

    fn string_lit(&mut self, s: &str) -> Tok {
        t(&format!("\"{s}\""))
    }

    fn examples_ann(&mut self) -> String {
        let n = if self.rng.chance(self.cfg.examples_bias, 10) { self.rng.range(2, 6) } else { 1 };
        if n >= 2 {
            self.features.insert("examples_multi");
        }
        let mut parts = Vec::new();
        let mut used = BTreeSet::new();
        while parts.len() < n {
            let k = format!("ex{}", self.rng.below(40));
            if used.insert(k.clone()) {
                let id = self.fresh();
                parts.push(format!("{k}: \"examples/e{id}.json\""));
            }
        }
        format!("examples: {{ {} }}", parts.join(", "))
    }

    fn text_word(&mut self) -> String {
        const W: &[&str] = &["some stuff", "héllo wörld", "说明 text", "emoji 😉 here", "plain", "all good", "naïve café"];
        self.rng.pick(W).to_string()
    }

    /// Optionally appends an inline annotation to a *closed* term.
    fn maybe_inline_ann(&mut self, v: &mut Vec<Tok>, k: Kind) {
        if !self.rng.chance(1, 5) {
            return;
        }
        let w = self.text_word();
        let body = match k {
            Kind::S(SK::Prim) => match self.rng.below(8) {
                0 => format!("title: \"{w}\""),
                1 => "minimum: 0, maximum: 99".to_string(),
                2 => "multipleOf: 5, example: 42".to_string(),
                3 => "pattern: \"^[a-z]+$\", example: sarah".to_string(),
                4 => "enum: [red, green, blue]".to_string(),
                5 => "format: email, minLength: 3, maxLength: 64".to_string(),
                6 => "required: true".to_string(),
                _ => format!("description: \"{w}\""),
            },
            Kind::S(_) => match self.rng.below(3) {
                0 => format!("title: \"{w}\""),
                1 => self.examples_ann(),
                _ => format!("description: \"{w}\""),
            },
            Kind::Content => match self.rng.below(2) {
                0 => self.examples_ann(),
                _ => format!("description: \"{w}\""),
            },
            Kind::Prop(_) => format!("description: \"{w}\""),
            Kind::Transfer => match self.rng.below(4) {
                0 => tags_ann(self.rng),
                3 => {
                    let id = self.fresh();
                    format!("operationId: \"op-{id}\"")
                }
                1 => format!("summary: \"{w}\""),
                _ => format!("description: \"{w}\", {}", tags_ann(self.rng)),
            },
            _ => return,
        };
        if body.contains("tags:") {
            self.features.insert("tags_annotation");
        }
        self.features.insert("inline_annotation");
        v.push(t(&format!("`{body}`")));
    }

    fn prim(&mut self) -> Vec<Tok> {
        // `uri` is a primitive for the type checker (it only evaluates to a URI).
        let p = *self.rng.pick(&["num", "str", "bool", "int", "num", "str", "uri"]);
        vec![t(p)]
    }

    fn prop_name(&mut self) -> String {
        const N: &[&str] = &["id", "name", "n", "age", "tag$", "first-name", "@type", "v", "size", "q"];
        let id = self.fresh();
        format!("'{}{}", self.rng.pick(N), id % 50)
    }

    /// Returns (tokens, closed?).
    fn expr(&mut self, k: Kind, depth: usize) -> (Vec<Tok>, bool) {
        // Prefer naming something in scope now and then: this is what creates bindings.
        let var_p = if depth == 0 { 8 } else { 5 };
        if self.rng.chance(var_p, 10) {
            if let Some((mut v, closed)) = self.try_var(k, depth) {
                if closed && matches!(k, Kind::Transfer | Kind::Content) {
                    // an alias with its own annotation: annotations of both merge
                    self.maybe_inline_ann(&mut v, k);
                }
                return (v, closed);
            }
        }
        match k {
            Kind::S(sk) => self.schema(sk, depth),
            Kind::Prop(sk) => self.property(sk, depth),
            Kind::Content => self.content(depth),
            Kind::Ranges => self.ranges(depth),
            Kind::Transfer => self.transfer(depth),
            Kind::Rel => self.relation(depth),
            Kind::Text => {
                let m = *self.rng.pick(MEDIA);
                (vec![self.string_lit(m)], true)
            }
            Kind::Status => {
                let s = match self.rng.below(5) {
                    0 => "200".to_string(),
                    1 => format!("{}", 100 + self.rng.below(500)),
                    2 => format!("{}XX", 1 + self.rng.below(5)),
                    3 => self.rng.pick(&["100", "101", "204", "304", "599", "500"]).to_string(),
                    _ => "404".to_string(),
                };
                (vec![t(&s)], true)
            }
        }
    }

    fn schema(&mut self, sk: SK, depth: usize) -> (Vec<Tok>, bool) {
        let deep = depth > 0;
        let (mut v, closed) = match sk {
            SK::Prim => {
                if deep && self.rng.chance(1, 6) {
                    // typed alternative between primitives
                    let mut v = self.term(Kind::S(SK::Prim), 0);
                    v.push(t("|"));
                    v.extend(self.term(Kind::S(SK::Prim), 0));
                    self.features.insert("sum");
                    (v, false)
                } else {
                    (self.prim(), true)
                }
            }
            SK::Obj => {
                let c = if deep { self.rng.below(10) } else { 0 };
                if c < 6 {
                    (self.object(depth), true)
                } else if c < 8 {
                    let mut v = self.term(Kind::S(SK::Obj), depth - 1);
                    v.push(t("&"));
                    v.extend(self.term(Kind::S(SK::Obj), depth - 1));
                    self.features.insert("join");
                    (v, false)
                } else if c < 9 && !self.in_rec_limit() {
                    (self.recursion(SK::Obj, depth), false)
                } else {
                    let mut v = self.term(Kind::S(SK::Obj), depth - 1);
                    v.push(t("|"));
                    v.extend(self.term(Kind::S(SK::Obj), depth - 1));
                    self.features.insert("sum");
                    (v, false)
                }
            }
            SK::Arr => {
                if deep && self.rng.chance(1, 8) && !self.in_rec_limit() {
                    (self.recursion(SK::Arr, depth), false)
                } else {
                    let inner_k = self.any_schema_kind();
                    let (inner, _) = self.expr(Kind::S(inner_k), depth.saturating_sub(1));
                    let mut v = vec![t("[")];
                    v.extend(inner);
                    v.push(t("]"));
                    (v, true)
                }
            }
            SK::Uri => {
                if deep && self.rng.chance(1, 5) && matches!(self.resolve(None, "concat"), Found::Builtin) {
                    let mut v = self.use_tok(None, "concat", None);
                    // (a parameter may be called `concat`: the built-in is then out of reach)
                    v.extend(self.term(Kind::S(SK::Uri), 0));
                    v.extend(self.term(Kind::S(SK::Uri), 0));
                    self.features.insert("builtin_use");
                    (v, false)
                } else {
                    (self.uri_template(depth), false)
                }
            }
            SK::Any => {
                let n = self.rng.range(2, 3);
                let mut v = Vec::new();
                for i in 0..n {
                    if i > 0 {
                        v.push(t("~"));
                    }
                    let k = self.any_schema_kind();
                    v.extend(self.term(Kind::S(k), depth.saturating_sub(1)));
                }
                self.features.insert("any");
                (v, false)
            }
        };
        if closed {
            self.maybe_inline_ann(&mut v, Kind::S(sk));
        }
        (v, closed)
    }

    fn in_rec_limit(&self) -> bool {
        self.recs.len() >= 2
    }

    fn any_schema_kind(&mut self) -> SK {
        *self.rng.pick(&[SK::Prim, SK::Prim, SK::Obj, SK::Obj, SK::Arr, SK::Uri])
    }

    fn pick_binder_name(&mut self, extra: &[String]) -> String {
        // Collisions on purpose: parameters may take the name of a declaration of the module
        // or of an import; rec binders may take the name of a parameter.
        if !extra.is_empty() && self.rng.chance(self.cfg.shadow_bias, 10) {
            return self.rng.pick(extra).clone();
        }
        self.rng.pick(POOL).to_string()
    }

    fn recursion(&mut self, sk: SK, depth: usize) -> Vec<Tok> {
        let mut extra: Vec<String> = self.params.iter().map(|p| p.name.clone()).collect();
        extra.extend(self.all_own_names.iter().filter(|(n, _)| !n.starts_with('@')).map(|(n, _)| n.clone()));
        let name = self.pick_binder_name(&extra);
        let b = self.binders.len();
        self.binders.push(Binder {
            kind: BinderKind::Rec,
            module: self.m,
            name: name.clone(),
            owner: self.cur_decl,
            is_function: false,
            is_reference: false,
                    is_schema: false,
        });
        self.features.insert("rec");
        let mut v = vec![t("rec")];
        v.push(Tok {
            text: name.clone(),
            tight: false,
            eol: false,
            occ: Some(Occ {
                role: Role::RecBinder,
                binder: Some(b),
            }),
        });
        self.recs.push(Local {
            name: name.clone(),
            kind: Kind::S(sk),
            binder: b,
        });
        // body: an object or array that mentions the binder under a property or array
        let use_x = |cx: &mut Cx| -> Vec<Tok> {
            cx.features.insert("rec_use");
            cx.note_shadow(b);
            cx.use_tok(None, &name, Some(b))
        };
        let body = match sk {
            SK::Obj => {
                let mut v = vec![t("{")];
                let p1 = self.prop_name();
                v.push(t(&p1));
                v.extend(self.term(Kind::S(SK::Prim), 0));
                v.push(t(","));
                let p2 = self.prop_name();
                v.push(t(&p2));
                if self.rng.chance(1, 2) {
                    v.push(t("["));
                    v.extend(use_x(self));
                    v.push(t("]"));
                } else {
                    v.extend(use_x(self));
                }
                if depth > 1 && self.rng.chance(1, 2) {
                    v.push(t(","));
                    let (p, _) = self.property(SK::Obj, depth - 1);
                    v.extend(p);
                }
                v.push(t("}"));
                v
            }
            _ => {
                let mut v = vec![t("["), t("{")];
                let p1 = self.prop_name();
                v.push(t(&p1));
                v.extend(use_x(self));
                v.push(t("}"));
                v.push(t("]"));
                v
            }
        };
        self.recs.pop();
        v.extend(body);
        v
    }

    fn object(&mut self, depth: usize) -> Vec<Tok> {
        let n = self.rng.range(0, 3);
        let mut v = vec![t("{")];
        for i in 0..n {
            if i > 0 {
                v.push(t(","));
            }
            let sk = if depth == 0 { SK::Prim } else { self.any_schema_kind() };
            let (p, _) = self.expr(Kind::Prop(sk), depth.saturating_sub(1));
            v.extend(p);
        }
        v.push(t("}"));
        v
    }

    fn property(&mut self, sk: SK, depth: usize) -> (Vec<Tok>, bool) {
        if depth > 0 && self.rng.chance(1, 8) {
            // unary form on a terminal operand: `('r num) !` or `p ?`
            let mut v = self.term(Kind::Prop(sk), depth - 1);
            v.push(t(if self.rng.chance(1, 2) { "!" } else { "?" }));
            self.features.insert("unary");
            return (v, false);
        }
        let name = self.prop_name();
        let mut v = vec![t(&name)];
        match self.rng.below(4) {
            0 => v.push(tt("!")),
            1 => v.push(tt("?")),
            _ => {}
        }
        let deep = matches!(sk, SK::Any | SK::Obj) && self.rng.chance(1, 30);
        let (mut rhs, _) = match if deep { self.try_var(Kind::S(sk), depth) } else { None } {
            Some(x) => x,
            None => self.expr(Kind::S(sk), depth),
        };
        if deep {
            // very deep nesting: the value sits 13-20 object literals down
            let n = self.rng.range(13, 20);
            for k in 0..n {
                let mut w = vec![t("{"), t(&format!("'d{k}"))];
                w.extend(rhs);
                w.push(t("}"));
                rhs = w;
            }
            self.features.insert("value_nested_more_than_a_dozen_objects_deep");
        }
        v.extend(rhs);
        (v, false)
    }

    fn uri_template(&mut self, _depth: usize) -> Vec<Tok> {
        // now and then a long path: many segments with long names (labels derived from the
        // path, such as operation ids, then exceed any small bound)
        let long = self.rng.chance(1, 8);
        let n = if long { self.rng.range(5, 9) } else { self.rng.range(1, 3) };
        let mut v = Vec::new();
        let mut vars = 0;
        for i in 0..n {
            let id = self.fresh();
            if i > 0 && vars < 2 && self.rng.chance(1, 3) {
                // path variable: an inline primitive property with a fresh (pairwise distinct) name,
                // or a Prop(Prim) declaration whose literal name is known.
                let mut tk = tt("/");
                tk.tight = i > 0;
                v.push(tk);
                v.push(tt("{"));
                let cands: Vec<_> = self
                    .var_candidates(|k| *k == Kind::Prop(SK::Prim), false)
                    .into_iter()
                    .filter(|c| self.binders[c.2].kind == BinderKind::Decl)
                    .collect();
                if vars == 0 && !cands.is_empty() && self.rng.chance(1, 2) {
                    let (q, name, b, _, _) = self.rng.pick(&cands).clone();
                    self.note_shadow(b);
                    v.extend(self.use_tok(q, &name, Some(b)));
                } else {
                    v.push(t(&format!("'pv{id}")));
                    v.extend(self.prim());
                }
                v.push(t("}"));
                vars += 1;
                self.features.insert("uri_variable");
            } else {
                let seg = if long { format!("/{}-{id}", self.rng.pick(&["organisations", "departments", "employees", "timesheets", "approvals"])) } else { format!("/s{id}") };
                let mut tk = tt(&seg);
                tk.tight = i > 0;
                v.push(tk);
            }
        }
        if self.rng.chance(1, 6) {
            v.push(tt("?"));
            v.push(tt("{"));
            let id = self.fresh();
            v.push(t(&format!("'qp{id}")));
            v.extend(self.prim());
            v.push(t("}"));
            self.features.insert("uri_params");
        }
        v
    }

    fn content(&mut self, depth: usize) -> (Vec<Tok>, bool) {
        let mut v = vec![t("<")];
        let mut metas: Vec<Vec<Tok>> = Vec::new();
        if self.rng.chance(1, 2) {
            let mut m = vec![t("status"), t("=")];
            m.extend(self.expr(Kind::Status, 0).0);
            metas.push(m);
        }
        if self.rng.chance(1, 3) {
            let mut m = vec![t("media"), t("=")];
            m.extend(self.expr(Kind::Text, 0).0);
            metas.push(m);
        }
        if self.rng.chance(1, 4) {
            let mut m = vec![t("headers"), t("=")];
            // Literal objects only: the evaluator casts headers with `cast_object`, which the
            // type checker does not fully guard (a C01 matter, not claimed here).
            if self.rng.chance(1, 4) {
                // header names that differ in case only, among others
                let mut hs = vec![("'ETag", "str"), ("'etag", "str"), ("'X-Rate-Limit", "int"), ("'x-rate-limit", "num"), ("'Vary", "str")];
                self.rng.shuffle(&mut hs);
                let n = self.rng.range(3, 5);
                m.push(t("{"));
                for (i, (name, ty)) in hs.into_iter().take(n).enumerate() {
                    if i > 0 {
                        m.push(t(","));
                    }
                    m.push(t(name));
                    m.push(t(ty));
                }
                m.push(t("}"));
                self.features.insert("headers_differing_in_case");
            } else {
                m.extend(self.object(0));
            }
            metas.push(m);
            self.features.insert("headers");
        }
        self.rng.shuffle(&mut metas);
        let has_meta = !metas.is_empty();
        for (i, m) in metas.into_iter().enumerate() {
            if i > 0 {
                v.push(t(","));
            }
            v.extend(m);
        }
        if self.rng.chance(5, 6) {
            if has_meta {
                v.push(t(","));
            }
            let sk = self.any_schema_kind();
            let body = self.term(Kind::S(sk), depth.saturating_sub(1));
            v.extend(body);
        }
        v.push(t(">"));
        self.maybe_inline_ann(&mut v, Kind::Content);
        (v, true)
    }

    fn ranges(&mut self, depth: usize) -> (Vec<Tok>, bool) {
        let n = self.rng.range(2, 4);
        let mut v = Vec::new();
        for i in 0..n {
            if i > 0 {
                v.push(t("::"));
            }
            v.extend(self.term(Kind::Content, depth.saturating_sub(1)));
        }
        self.features.insert("ranges_multi");
        (v, false)
    }

    fn transfer(&mut self, depth: usize) -> (Vec<Tok>, bool) {
        let n = self.rng.range(1, 2);
        let mut ms: Vec<&str> = METHODS.to_vec();
        self.rng.shuffle(&mut ms);
        let mut v = Vec::new();
        for (i, m) in ms.iter().take(n).enumerate() {
            if i > 0 {
                v.push(t(","));
            }
            v.push(t(m));
        }
        if self.rng.chance(1, 4) {
            v.push(t("{"));
            let id = self.fresh();
            v.push(t(&format!("'xp{id}")));
            v.extend(self.prim());
            v.push(t("}"));
        }
        if self.rng.chance(1, 3) {
            v.push(t(":"));
            v.extend(self.term(Kind::Content, depth.saturating_sub(1)));
        }
        v.push(t("->"));
        if self.rng.chance(1, 2) {
            v.extend(self.term(Kind::Content, depth.saturating_sub(1)));
        } else if let Some((r, closed)) = self.try_var(Kind::Ranges, depth) {
            if closed {
                v.extend(r)
            } else {
                v.extend(self.parens(r))
            }
        } else {
            let (r, _) = self.ranges(depth);
            v.extend(r);
        }
        (v, false)
    }

    fn relation(&mut self, depth: usize) -> (Vec<Tok>, bool) {
        // uri term: a template is only closed when parenthesised.
        let mut v = if self.rng.chance(1, 2) {
            self.uri_template(depth)
        } else {
            self.term(Kind::S(SK::Uri), depth.saturating_sub(1))
        };
        v.push(t("on"));
        let n = self.rng.range(1, 2);
        for i in 0..n {
            if i > 0 {
                v.push(t(","));
            }
            let (x, closed) = self.expr(Kind::Transfer, depth.saturating_sub(1));
            let _ = closed;
            v.extend(x);
        }
        (v, false)
    }
}

/// A `tags: [...]` annotation over a small pool, so that merged annotations (a tagged
/// declaration aliased with another tag list) contain duplicates.
fn tags_ann(rng: &mut Rng) -> String {
    const TAGS: &[&str] = &["pets", "store", "admin", "audit", "billing", "search"];
    let n = rng.range(1, 4);
    let mut v: Vec<&str> = Vec::new();
    while v.len() < n {
        let x = *rng.pick(TAGS);
        if !v.contains(&x) {
            v.push(x);
        }
    }
    format!("tags: [{}]", v.join(", "))
}

/// What `qualifier.name` (or plain `name`) names through the imports of module `m`:
/// the last import in source order that matches.
fn import_resolves(mods: &[ModSt], m: usize, qualifier: Option<&str>, name: &str) -> Option<usize> {
    for imp in mods[m].imports.iter().rev() {
        if imp.qualifier.as_ref().map(|q| q.0.as_str()) == qualifier {
            if let Some(d) = mods[imp.module].decls.iter().find(|d| d.name == name) {
                return Some(d.binder);
            }
        }
    }
    None
}

fn decl_kind(rng: &mut Rng) -> Kind {
    match rng.below(20) {
        0..=2 => Kind::S(SK::Prim),
        3..=6 => Kind::S(SK::Obj),
        7 => Kind::S(SK::Arr),
        8..=9 => Kind::S(SK::Uri),
        10 => Kind::S(SK::Any),
        11..=12 => Kind::Prop(SK::Prim),
        13 => Kind::Prop(SK::Obj),
        14..=15 => Kind::Content,
        16 => Kind::Ranges,
        17 => Kind::Transfer,
        18 => {
            if rng.chance(1, 2) {
                Kind::Transfer
            } else {
                Kind::Rel
            }
        }
        _ => {
            if rng.chance(1, 2) {
                Kind::Text
            } else {
                Kind::Status
            }
        }
    }
}

fn param_kind(rng: &mut Rng) -> Kind {
    match rng.below(8) {
        0..=1 => Kind::S(SK::Prim),
        2..=4 => Kind::S(SK::Obj),
        5 => Kind::S(SK::Arr),
        6 => Kind::Content,
        _ => Kind::Prop(SK::Prim),
    }
}

pub fn generate(rng: &mut Rng, cfg: &GenCfg) -> ProgramAst {
    let nmods = rng.range(1, cfg.max_modules);
    let mut binders: Vec<Binder> = Vec::new();
    let mut features: BTreeSet<&'static str> = BTreeSet::new();
    let mut mods: Vec<ModSt> = vec![ModSt::default(); nmods];
    let mut asts: Vec<ModuleAst> = (0..nmods)
        .map(|i| ModuleAst {
            path: if i == 0 {
                "main.oal".to_string()
            } else {
                match rng.below(12) {
                    0..=2 => format!("sub/m{i}.oal"),
                    3 => format!("m {i}.oal"),
                    4 => format!("mé{i}.oal"),
                    5 => format!("sub dir/m{i}.oal"),
                    6 => format!("m+v{i}.oal"),
                    7 => format!("defs{i}.inc"),
                    8 => format!("M{i}.OAL"),
                    _ => format!("m{i}.oal"),
                }
            },
            stmts: Vec::new(),
        })
        .collect();
    let mut uniq = 0u32;
    // Component names are global in the emitted document: `@name` declarations are kept
    // unique across modules (two modules declaring the same @name is a C02/C09 matter).
    let mut ref_names: BTreeSet<String> = BTreeSet::new();
    if nmods > 1 {
        features.insert("multi_module");
    }

    // modules are generated leaf first so that every import refers to finished modules
    for m in (0..nmods).rev() {
        // --- imports: every module k>0 must be reachable from main
        let mut imports: Vec<ImportSt> = Vec::new();
        let mut quals_used: BTreeSet<String> = BTreeSet::new();
        let mut flat_names: BTreeSet<String> = BTreeSet::new();
        let mut targets: Vec<usize> = Vec::new();
        if m + 1 < nmods {
            // guarantee reachability: import the next module; others at random
            targets.push(m + 1);
            for j in m + 2..nmods {
                if rng.chance(1, 2) {
                    targets.push(j);
                }
            }
        }
        rng.shuffle(&mut targets);
        for j in targets {
            let their: BTreeSet<String> = mods[j].decls.iter().map(|d| d.name.clone()).collect();
            let clash = their.iter().any(|n| flat_names.contains(n));
            let qualified = (clash && !cfg.clashing_imports) || rng.chance(2, 3);
            if clash && !qualified {
                features.insert("unqualified_imports_share_a_name");
            }
            let qualifier = if qualified {
                let mut q = rng.pick(QUALS).to_string();
                // now and then the qualifier is spelled like something the module declares
                // (`use "types.oal" as id; … id.id`)
                let plain: Vec<&String> = their.iter().filter(|n| n.chars().next().map(|c| c.is_ascii_alphabetic() || c == '_').unwrap_or(false) && n.as_str() != "concat").collect();
                if !plain.is_empty() && rng.chance(1, 5) {
                    q = (*rng.pick(&plain)).clone();
                    features.insert("qualifier_spelled_like_a_member");
                }
                let reuse = cfg.clashing_imports && !quals_used.is_empty() && rng.chance(1, 4);
                if reuse {
                    q = quals_used.iter().next().unwrap().clone();
                    features.insert("qualifier_used_by_two_imports");
                }
                while !reuse && quals_used.contains(&q) {
                    q = format!("{}{}", q, rng.below(9));
                }
                quals_used.insert(q.clone());
                let b = binders.len();
                binders.push(Binder {
                    kind: BinderKind::Qualifier,
                    module: m,
                    name: q.clone(),
                    owner: None,
                    is_function: false,
                    is_reference: false,
                    is_schema: false,
                });
                Some((q, b))
            } else {
                flat_names.extend(their);
                None
            };
            imports.push(ImportSt {
                module: j,
                qualifier,
            });
        }
        mods[m].imports = imports.clone();

        // --- declaration headers first (names, kinds, params) so the resolver knows all names
        // now and then an imported module is empty
        let ndecl = if m > 0 && rng.chance(1, 25) { 0 } else { rng.range(cfg.min_decls, cfg.max_decls) };
        let mut headers: Vec<Decl> = Vec::new();
        let mut own_names: BTreeSet<String> = BTreeSet::new();
        for _ in 0..ndecl {
            let kind = decl_kind(rng);
            let is_schema = matches!(kind, Kind::S(_));
            let is_ref = is_schema && rng.chance(1, 4);
            let mut name;
            let mut guard = 0;
            loop {
                name = rng.pick(POOL).to_string();
                if is_ref && rng.chance(1, 10) {
                    // a user reference that looks like a compiler-made one
                    name = format!("hash-{}", name.trim_start_matches('_'));
                    features.insert("reference_named_like_an_implicit_one");
                }
                if guard > 5 {
                    name = format!("{}{}", name, rng.below(100));
                }
                guard += 1;
                let full = if is_ref { format!("@{name}") } else { name.clone() };
                if !own_names.contains(&full) && !flat_names.contains(&full) && full != "concat" && !(is_ref && ref_names.contains(&full)) {
                    if is_ref {
                        ref_names.insert(full.clone());
                    }
                    name = full;
                    break;
                }
            }
            own_names.insert(name.clone());
            let mut kind = kind;
            let mut is_fun = !is_ref && !matches!(kind, Kind::Text | Kind::Status | Kind::Rel | Kind::Transfer) && rng.chance(1, 4);
            let mut params = Vec::new();
            let mut delegate: Option<Delegate> = None;
            if !is_ref && rng.chance(1, 5) {
                // forward to an earlier function with >= 2 parameters (own module or imported)
                let mut cands: Vec<Delegate> = headers
                    .iter()
                    .filter(|h| h.params.len() >= 2)
                    .map(|h| Delegate { qualifier: None, name: h.name.clone(), binder: h.binder, params: h.params.clone() })
                    .collect();
                for imp in imports.iter() {
                    for d in mods[imp.module].decls.iter().filter(|d| d.params.len() >= 2) {
                        if import_resolves(&mods, m, imp.qualifier.as_ref().map(|q| q.0.as_str()), &d.name) == Some(d.binder) {
                            cands.push(Delegate { qualifier: imp.qualifier.clone(), name: d.name.clone(), binder: d.binder, params: d.params.clone() });
                        }
                    }
                }
                if !cands.is_empty() {
                    let g = cands[rng.below(cands.len())].clone();
                    let first = g.params[0].0.clone();
                    // the callee must stay nameable: our parameter is not called like it
                    if first != g.name && first != name {
                        let gk = if g.qualifier.is_some() { mods.iter().flat_map(|m| m.decls.iter()).find(|d| d.binder == g.binder).map(|d| d.kind) } else { headers.iter().find(|h| h.binder == g.binder).map(|h| h.kind) };
                        if let Some(gk) = gk {
                            kind = gk;
                            is_fun = true;
                            params.push((first, g.params.last().unwrap().1));
                            delegate = Some(g);
                            features.insert("delegating_function");
                        }
                    }
                }
            }
            if is_fun && delegate.is_none() {
                let np = rng.range(1, 3);
                let mut extra: Vec<String> = own_names.iter().filter(|n| !n.starts_with('@')).cloned().collect();
                extra.extend(flat_names.iter().filter(|n| !n.starts_with('@')).cloned());
                let mut used = BTreeSet::new();
                for _ in 0..np {
                    let mut pn = if !extra.is_empty() && rng.chance(cfg.shadow_bias, 10) {
                        rng.pick(&extra).clone()
                    } else {
                        rng.pick(POOL).to_string()
                    };
                    // now and then two parameters share a name (accepted: the last one binds)
                    let dup = !params.is_empty() && rng.chance(1, 8);
                    if dup {
                        pn = params[rng.below(params.len())].0.clone();
                        features.insert("duplicate_parameter_name");
                    }
                    // now and then a parameter takes the built-in's name
                    if !dup && !used.contains("concat") && rng.chance(1, 25) {
                        pn = "concat".to_string();
                        features.insert("parameter_named_like_the_builtin");
                    }
                    while !dup && used.contains(&pn) {
                        pn = format!("{}{}", pn, rng.below(10));
                    }
                    used.insert(pn.clone());
                    params.push((pn, param_kind(rng)));
                }
                if np >= 2 {
                    features.insert("scope_multi_param");
                }
                features.insert("function");
            }
            let b = binders.len();
            binders.push(Binder {
                kind: BinderKind::Decl,
                module: m,
                name: name.clone(),
                owner: None,
                is_function: is_fun,
                is_reference: is_ref,
                is_schema: is_schema && !is_fun,
            });
            if is_ref {
                features.insert("reference");
            }
            headers.push(Decl {
                name,
                kind,
                params,
                binder: b,
                prop_name: None,
                delegate,
            });
        }
        let all_own_names: Vec<(String, usize)> = headers.iter().map(|d| (d.name.clone(), d.binder)).collect();

        // --- bodies, in dependency order (a body names only earlier declarations, or itself)
        let mut stmts: Vec<Stmt> = Vec::new();
        let mut done: Vec<Decl> = Vec::new();
        for d in headers.iter() {
            let mut toks: Vec<Tok> = Vec::new();
            // statement annotations
            let mut tmp_rng = rng.fork("ann");
            if tmp_rng.chance(1, 4) {
                let mut cxr = tmp_rng.fork("x");
                let w = *cxr.pick(&["some stuff", "déscription 😉", "说明", "plain"]);
                let mut a = t(&format!("# description: \"{w}\""));
                a.eol = true;
                toks.push(a);
                features.insert("line_annotation");
            }
            if d.kind == Kind::Transfer && tmp_rng.chance(2, 3) {
                let mut a = t(&format!("# {}", tags_ann(&mut tmp_rng)));
                a.eol = true;
                toks.push(a);
                features.insert("line_annotation");
                features.insert("tags_annotation");
            }
            toks.push(t("let"));
            toks.push(Tok {
                text: d.name.clone(),
                tight: false,
                eol: false,
                occ: Some(Occ {
                    role: Role::DeclName,
                    binder: Some(d.binder),
                }),
            });
            let mut params: Vec<Local> = Vec::new();
            for (pn, pk) in d.params.iter() {
                let pb = binders.len();
                binders.push(Binder {
                    kind: BinderKind::Param,
                    module: m,
                    name: pn.clone(),
                    owner: Some(d.binder),
                    is_function: false,
                    is_reference: false,
                    is_schema: false,
                });
                toks.push(Tok {
                    text: pn.clone(),
                    tight: false,
                    eol: false,
                    occ: Some(Occ {
                        role: Role::Param,
                        binder: Some(pb),
                    }),
                });
                params.push(Local {
                    name: pn.clone(),
                    kind: *pk,
                    binder: pb,
                });
            }
            toks.push(t("="));
            let recursive = d.params.is_empty() && d.kind == Kind::S(SK::Obj) && rng.chance(1, 6);
            let mut cx = Cx {
                rng,
                m,
                mods: &mods,
                own: done.clone(),
                self_ref: None,
                params,
                recs: Vec::new(),
                uniq: &mut uniq,
                binders: &mut binders,
                features: &mut features,
                cfg,
                all_own_names: &all_own_names,
                cur_decl: Some(d.binder),
                in_function: !d.params.is_empty(),
            };
            let _ = cx.in_function;
            let _ = &cx.self_ref;
            let body = if recursive {
                // self-recursive object: `let tree = { 'v num, 'kids [tree] }`
                let mut v = vec![t("{")];
                let p1 = cx.prop_name();
                v.push(t(&p1));
                v.extend(cx.prim());
                v.push(t(","));
                let p2 = cx.prop_name();
                v.push(t(&p2));
                v.push(t("["));
                v.extend(cx.use_tok(None, &d.name, Some(d.binder)));
                v.push(t("]"));
                v.push(t("}"));
                cx.features.insert("recursive_declaration");
                v
            } else {
                let depth = cx.rng.range(1, cfg.max_depth);
                // functions should use their parameters
                let (mut v, _) = if let Some(g) = d.delegate.clone() {
                    let mut v = cx.use_tok(g.qualifier.clone(), &g.name, Some(g.binder));
                    let own = cx.params[0].clone();
                    let last = g.params.len() - 1;
                    for (i, (_, pk)) in g.params.iter().enumerate() {
                        if i == last {
                            cx.note_shadow(own.binder);
                            v.extend(cx.use_tok(None, &own.name, Some(own.binder)));
                        } else {
                            v.extend(cx.term(*pk, 0));
                        }
                    }
                    cx.features.insert("application");
                    (v, false)
                } else if !cx.params.is_empty() {
                    gen_function_body(&mut cx, d.kind, depth)
                } else {
                    cx.expr(d.kind, depth)
                };
                if d.kind == Kind::Rel && false {
                    v.clear();
                }
                v
            };
            let mut dd = d.clone();
            if d.kind == Kind::Prop(SK::Prim) && d.params.is_empty() {
                // literal property name is the first token when the body is an inline property
                if let Some(first) = body.first() {
                    if first.text.starts_with('\'') {
                        dd.prop_name = Some(first.text.clone());
                    }
                }
            }
            toks.extend(body);
            toks.push(t(";"));
            stmts.push(Stmt {
                kind: StmtKind::Decl,
                toks,
            });
            done.push(dd);
        }
        mods[m].decls = done.clone();

        // --- resources (main always has at least one; other modules may too, unused)
        let nres = if m == 0 { rng.range(cfg.res_range.0, cfg.res_range.1) } else { 0 };
        for _ in 0..nres {
            let mut cx = Cx {
                rng,
                m,
                mods: &mods,
                own: done.clone(),
                self_ref: None,
                params: Vec::new(),
                recs: Vec::new(),
                uniq: &mut uniq,
                binders: &mut binders,
                features: &mut features,
                cfg,
                all_own_names: &all_own_names,
                cur_decl: None,
                in_function: false,
            };
            let mut toks = vec![t("res")];
            let (v, _) = cx.expr(Kind::Rel, 4);
            toks.extend(v);
            toks.push(t(";"));
            stmts.push(Stmt {
                kind: StmtKind::Res,
                toks,
            });
        }

        // now and then one declaration is used hundreds of times (answers that list uses,
        // such as references and rename edits, then get long)
        if rng.chance(1, 40) {
            if let Some(d) = done.iter().find(|d| d.params.is_empty() && matches!(d.kind, Kind::S(SK::Prim))).cloned() {
                let nb = binders.len();
                let name = format!("many{m}");
                binders.push(Binder {
                    kind: BinderKind::Decl,
                    module: m,
                    name: name.clone(),
                    owner: None,
                    is_function: false,
                    is_reference: false,
                    is_schema: true,
                });
                let mut toks = vec![t("let")];
                toks.push(Tok { text: name, tight: false, eol: false, occ: Some(Occ { role: Role::DeclName, binder: Some(nb) }) });
                toks.push(t("="));
                toks.push(t("{"));
                let n = rng.range(205, 260);
                for k in 0..n {
                    if k > 0 {
                        toks.push(t(","));
                    }
                    toks.push(t(&format!("'u{k}")));
                    toks.push(Tok { text: d.name.clone(), tight: false, eol: false, occ: Some(Occ { role: Role::Use, binder: Some(d.binder) }) });
                }
                toks.push(t("}"));
                toks.push(t(";"));
                stmts.push(Stmt { kind: StmtKind::Decl, toks });
                features.insert("declaration_used_hundreds_of_times");
            }
        }
        // textual order is free: declarations may be used before their definition
        rng.shuffle(&mut stmts);
        if stmts.iter().any(|s| s.kind == StmtKind::Res) {
            features.insert("use_before_definition_possible");
        }

        // imports go first
        let mut all: Vec<Stmt> = Vec::new();
        for imp in imports.iter() {
            let from = asts[m].path.clone();
            let to = asts[imp.module].path.clone();
            let mut rel = crate::loader_sim::spell(&from, &to, if rng.chance(1, 5) { 1 } else { 0 });
            if cfg.odd_spellings && rng.chance(1, 3) && rel.is_ascii() && !rel.contains(' ') && !rel.contains('+') {
                features.insert("odd_import_spelling");
                rel = match rng.below(4) {
                    0 => {
                        // needless escape of the file name's first character
                        let cut = rel.rfind('/').map(|i| i + 1).unwrap_or(0);
                        let c = rel.as_bytes()[cut];
                        format!("{}%{:02X}{}", &rel[..cut], c, &rel[cut + 1..])
                    }
                    1 => match rel.rfind('/') {
                        Some(i) => format!("{}//{}", &rel[..i], &rel[i + 1..]),
                        None => format!(".//{rel}"),
                    },
                    2 => format!("{rel}#v1"),
                    _ => format!("{rel}?rev=2"),
                };
            }
            let mut toks = vec![t("use"), t(&format!("\"{rel}\""))];
            if let Some((q, qb)) = &imp.qualifier {
                toks.push(t("as"));
                toks.push(Tok {
                    text: q.clone(),
                    tight: false,
                    eol: false,
                    occ: Some(Occ {
                        role: Role::QualDef,
                        binder: Some(*qb),
                    }),
                });
            } else {
                features.insert("unqualified_import");
            }
            toks.push(t(";"));
            all.push(Stmt {
                kind: StmtKind::Import,
                toks,
            });
        }
        if rng.chance(1, 3) && !all.is_empty() {
            // `use` is allowed anywhere at top level: scatter the imports among the statements
            // (their relative order is kept: which of two clashing imports wins depends on it)
            let imps: Vec<Stmt> = all.drain(..).collect();
            let mut at: Vec<usize> = (0..imps.len()).map(|_| rng.below(stmts.len() + 1)).collect();
            at.sort();
            for (k, imp) in imps.into_iter().enumerate() {
                stmts.insert(at[k] + k, imp);
            }
            features.insert("late_import");
        }
        all.extend(stmts);
        asts[m].stmts = all;
    }

    // Mirror uses: when two modules import the same module under qualifiers of equal length,
    // both get, as their very first statement, `let mirr<i> = <q>.<X> ;` for the same
    // declaration X - in a plain layout the two uses then sit at the same (line, column) in
    // two different documents.
    if nmods >= 3 && rng.chance(1, 2) {
        for tmod in 1..nmods {
            let Some(x) = mods[tmod].decls.iter().find(|d| d.params.is_empty()).cloned() else { continue };
            let importers: Vec<(usize, (String, usize))> = (0..tmod)
                .filter_map(|i| mods[i].imports.iter().find(|im| im.module == tmod).and_then(|im| im.qualifier.clone()).map(|q| (i, q)))
                .filter(|(i, q)| import_resolves(&mods, *i, Some(&q.0), &x.name) == Some(x.binder))
                .collect();
            let mut done = false;
            for a in 0..importers.len() {
                for b in a + 1..importers.len() {
                    if done || importers[a].1 .0.len() != importers[b].1 .0.len() {
                        continue;
                    }
                    for (i, (q, qb)) in [importers[a].clone(), importers[b].clone()] {
                        let nb = binders.len();
                        let name = format!("mir{i}{tmod}");
                        binders.push(Binder {
                            kind: BinderKind::Decl,
                            module: i,
                            name: name.clone(),
                            owner: None,
                            is_function: false,
                            is_reference: false,
                            is_schema: false,
                        });
                        let mut toks = vec![t("let")];
                        toks.push(Tok {
                            text: name,
                            tight: false,
                            eol: false,
                            occ: Some(Occ { role: Role::DeclName, binder: Some(nb) }),
                        });
                        toks.push(t("="));
                        toks.push(Tok {
                            text: q,
                            tight: false,
                            eol: false,
                            occ: Some(Occ { role: Role::QualUse, binder: Some(qb) }),
                        });
                        toks.push(tt("."));
                        toks.push(Tok {
                            text: x.name.clone(),
                            tight: true,
                            eol: false,
                            occ: Some(Occ { role: Role::Use, binder: Some(x.binder) }),
                        });
                        toks.push(t(";"));
                        asts[i].stmts.insert(0, Stmt { kind: StmtKind::Decl, toks });
                    }
                    features.insert("mirror_uses");
                    done = true;
                }
            }
        }
    }

    ProgramAst {
        modules: asts,
        binders,
        features,
    }
}

/// A function body of kind `k` that mentions its parameters where their kinds fit.
fn gen_function_body(cx: &mut Cx, k: Kind, depth: usize) -> (Vec<Tok>, bool) {
    // Build a container of the right kind and place parameters inside it.
    // parameters that can be named here: of two parameters with the same name only the last binds
    let params: Vec<Local> = cx
        .params
        .iter()
        .enumerate()
        .filter(|(i, p)| !cx.params[i + 1..].iter().any(|q| q.name == p.name))
        .map(|(_, p)| p.clone())
        .collect();
    let schema_params: Vec<&Local> = params.iter().filter(|p| matches!(p.kind, Kind::S(_))).collect();
    let prop_params: Vec<&Local> = params.iter().filter(|p| matches!(p.kind, Kind::Prop(_))).collect();
    let content_params: Vec<&Local> = params.iter().filter(|p| p.kind == Kind::Content).collect();
    let use_p = |cx: &mut Cx, p: &Local| -> Vec<Tok> {
        // The parameter is nameable unless a same-named later parameter shadows it (names are distinct).
        cx.note_shadow(p.binder);
        cx.use_tok(None, &p.name, Some(p.binder))
    };
    match k {
        Kind::S(SK::Obj) => {
            let mut v = vec![t("{")];
            let mut first = true;
            if depth > 0 && cx.rng.chance(1, 3) {
                // a recursion first - its binder likes to take a parameter's name - then the
                // parameters: uses *after* the rec expression must still reach the parameter
                let n = cx.prop_name();
                v.push(t(&n));
                let r = cx.recursion(SK::Obj, 1);
                v.extend(cx.parens(r));
                first = false;
            }
            for p in prop_params.iter() {
                if !first {
                    v.push(t(","));
                }
                first = false;
                v.extend(use_p(cx, p));
            }
            for p in schema_params.iter() {
                if !first {
                    v.push(t(","));
                }
                first = false;
                let n = cx.prop_name();
                v.push(t(&n));
                if cx.rng.chance(1, 3) {
                    v.push(t("["));
                    v.extend(use_p(cx, p));
                    v.push(t("]"));
                } else {
                    v.extend(use_p(cx, p));
                }
            }
            if cx.rng.chance(1, 2) {
                if !first {
                    v.push(t(","));
                }
                let (p, _) = cx.property(SK::Prim, depth.saturating_sub(1));
                v.extend(p);
            }
            v.push(t("}"));
            // optional join with an object-kind parameter or another object
            let objs: Vec<&&Local> = schema_params.iter().filter(|p| p.kind == Kind::S(SK::Obj)).collect();
            if !objs.is_empty() && cx.rng.chance(1, 2) {
                v.push(t("&"));
                let p = **cx.rng.pick(&objs);
                v.extend(use_p(cx, p));
                cx.features.insert("join");
                return (v, false);
            }
            (v, true)
        }
        Kind::S(SK::Arr) => {
            let mut v = vec![t("[")];
            if let Some(p) = schema_params.first() {
                v.extend(use_p(cx, p));
            } else {
                v.extend(cx.expr(Kind::S(SK::Obj), depth.saturating_sub(1)).0);
            }
            v.push(t("]"));
            (v, true)
        }
        Kind::S(SK::Any) => {
            let mut v = Vec::new();
            let mut n = 0;
            for p in schema_params.iter() {
                if n > 0 {
                    v.push(t("~"));
                }
                v.extend(use_p(cx, p));
                n += 1;
            }
            while n < 2 {
                if n > 0 {
                    v.push(t("~"));
                }
                v.extend(cx.term(Kind::S(SK::Prim), 0));
                n += 1;
            }
            (v, false)
        }
        Kind::Content => {
            let mut v = vec![t("<")];
            if cx.rng.chance(1, 2) {
                v.push(t("status"));
                v.push(t("="));
                v.extend(cx.expr(Kind::Status, 0).0);
                v.push(t(","));
            }
            if let Some(p) = schema_params.first() {
                v.extend(use_p(cx, p));
            } else {
                v.extend(cx.term(Kind::S(SK::Obj), depth.saturating_sub(1)));
            }
            v.push(t(">"));
            (v, true)
        }
        Kind::Ranges => {
            let mut v = Vec::new();
            let mut n = 0;
            for p in content_params.iter() {
                if n > 0 {
                    v.push(t("::"));
                }
                v.extend(use_p(cx, p));
                n += 1;
            }
            for p in schema_params.iter().take(1) {
                if n > 0 {
                    v.push(t("::"));
                }
                v.push(t("<"));
                v.extend(use_p(cx, p));
                v.push(t(">"));
                n += 1;
            }
            while n < 2 {
                if n > 0 {
                    v.push(t("::"));
                }
                v.extend(cx.term(Kind::Content, 0));
                n += 1;
            }
            cx.features.insert("ranges_multi");
            (v, false)
        }
        Kind::Prop(sk) => {
            // `'name <param or schema>`
            let n = cx.prop_name();
            let mut v = vec![t(&n)];
            let fit: Vec<&&Local> = schema_params.iter().filter(|p| p.kind == Kind::S(sk)).collect();
            if let Some(p) = fit.first() {
                let p = **p;
                v.extend(use_p(cx, p));
            } else {
                v.extend(cx.expr(Kind::S(sk), depth.saturating_sub(1)).0);
            }
            (v, false)
        }
        Kind::S(SK::Prim) => {
            // primitives cannot contain parameters except via `|` with a primitive parameter
            let prims: Vec<&&Local> = schema_params.iter().filter(|p| p.kind == Kind::S(SK::Prim)).collect();
            if let Some(p) = prims.first() {
                let p = **p;
                let mut v = use_p(cx, p);
                v.push(t("|"));
                v.extend(cx.prim());
                (v, false)
            } else {
                cx.expr(k, depth)
            }
        }
        _ => cx.expr(k, depth),
    }
}

// ------------------------------------------------------------------ rendering

#[derive(Clone, Debug, Serialize)]
pub struct ROcc {
    pub start: usize,
    pub end: usize,
    pub role: Role,
    pub binder: Option<usize>,
    pub stmt: usize,
}

#[derive(Clone, Debug, Serialize)]
pub struct RMod {
    pub path: String,
    pub text: String,
    pub occs: Vec<ROcc>,
    /// (start of first token, end of last token) per statement
    pub stmts: Vec<(usize, usize)>,
}

#[derive(Clone, Debug)]
pub struct Layout {
    pub seed: u64,
    /// 0: none, 1: sparse, 2: dense multi-byte trivia
    pub multibyte: u8,
    /// per module
    pub crlf: Vec<bool>,
    /// about a third of the line ends become a lone '\r' (before the CRLF conversion, so that
    /// "\r", "\r\n" and "\n" can meet in one module)
    pub lone_cr: bool,
    pub comments: bool,
    /// 0: seeded mixture, 1: the whole module on one (very long) line, 2: one token per line
    pub shape: u8,
}

const TRIVIA_ASCII: &[&str] = &[" ", " ", " ", "\n", "\n  ", "  ", " /* note */ ", "\n// line\n", "\t"];
const TRIVIA_MB: &[&str] = &[
    " /* é */ ",
    " /* 你好 */ ",
    " /* 😉😉 */ ",
    "\n// ünïcode 😉 说明\n",
    " /* a😉b */ ",
    // characters that some tools take for line ends but the protocol does not: U+2028, U+2029, U+0085
    " /* sep\u{2028}arator */ ",
    " /* par\u{2029}agraph \u{85} nel */ ",
];

pub fn render(ast: &ProgramAst, layout: &Layout) -> Vec<RMod> {
    let mut out = Vec::new();
    for (mi, m) in ast.modules.iter().enumerate() {
        let mut rng = Rng::from_u64(crate::prng::mix_u64(layout.seed, mi as u64));
        let mut text = String::new();
        let mut occs = Vec::new();
        let mut stmts = Vec::new();
        if layout.comments && rng.chance(1, 3) {
            text.push_str(if layout.multibyte > 0 { "// módulo 😉\n" } else { "// module\n" });
        }
        for (si, s) in m.stmts.iter().enumerate() {
            let mut start = None;
            for (ti, tok) in s.toks.iter().enumerate() {
                // two references in a row need nothing between them (`@a@b`)
                let glued = ti > 0 && !tok.tight && layout.comments && tok.text.starts_with('@') && s.toks[ti - 1].text.starts_with('@') && rng.chance(1, 3);
                if ti > 0 && !tok.tight && !glued {
                    let mb = match layout.multibyte {
                        0 => false,
                        1 => rng.chance(1, 12),
                        _ => rng.chance(1, 3),
                    };
                    if layout.shape == 1 {
                        text.push_str(if mb { " /* é😉 */ " } else { " " });
                    } else if layout.shape == 2 {
                        text.push('\n');
                    } else if mb && layout.comments {
                        text.push_str(*rng.pick(TRIVIA_MB));
                    } else if layout.comments {
                        text.push_str(*rng.pick(TRIVIA_ASCII));
                    } else {
                        text.push(' ');
                    }
                }
                if start.is_none() {
                    start = Some(text.len());
                }
                let a = text.len();
                text.push_str(&tok.text);
                let b = text.len();
                if let Some(o) = &tok.occ {
                    occs.push(ROcc {
                        start: a,
                        end: b,
                        role: o.role,
                        binder: o.binder,
                        stmt: si,
                    });
                }
                if tok.eol {
                    text.push('\n');
                }
            }
            stmts.push((start.unwrap_or(text.len()), text.len()));
            text.push(if layout.shape == 1 && !s.toks.iter().any(|t| t.eol) && si + 1 < m.stmts.len() && !m.stmts[si + 1].toks.first().map(|t| t.eol).unwrap_or(false) { ' ' } else { '\n' });
            if layout.comments && rng.chance(1, 5) {
                text.push('\n');
            }
        }
        if rng.chance(1, 4) {
            // no trailing newline
            while text.ends_with('\n') {
                text.pop();
            }
        }
        if layout.lone_cr {
            // same length, so no span moves; never right before a '\n' (that would read as CRLF)
            let mut b = std::mem::take(&mut text).into_bytes();
            for i in 0..b.len() {
                if b[i] == b'\n' && b.get(i + 1) != Some(&b'\n') && rng.chance(1, 3) {
                    b[i] = b'\r';
                }
            }
            text = String::from_utf8(b).unwrap();
        }
        if layout.crlf.get(mi).copied().unwrap_or(false) {
            // Convert LF to CRLF and shift spans accordingly.
            let mut map = Vec::with_capacity(text.len() + 1);
            let mut t2 = String::with_capacity(text.len() + 16);
            for (i, ch) in text.char_indices() {
                while map.len() <= i {
                    map.push(t2.len());
                }
                if ch == '\n' {
                    t2.push('\r');
                }
                t2.push(ch);
            }
            while map.len() <= text.len() {
                map.push(t2.len());
            }
            for o in occs.iter_mut() {
                o.start = map[o.start];
                o.end = map[o.end];
            }
            for s in stmts.iter_mut() {
                s.0 = map[s.0];
                s.1 = map[s.1];
            }
            text = t2;
        }
        out.push(RMod {
            path: m.path.clone(),
            text,
            occs,
            stmts,
        });
    }
    out
}

/// The program with every occurrence that names or is bound to `binder` respelled.
pub fn renamed(ast: &ProgramAst, binder: usize, new_name: &str) -> ProgramAst {
    let mut a = ast.clone();
    for m in a.modules.iter_mut() {
        for s in m.stmts.iter_mut() {
            for tok in s.toks.iter_mut() {
                if let Some(o) = &tok.occ {
                    if o.binder == Some(binder) {
                        tok.text = new_name.to_string();
                    }
                }
            }
        }
    }
    a.binders[binder].name = new_name.to_string();
    a
}

/// The same sources with the *text* of annotations changed but every byte offset kept:
/// inside `...` and `# ...` annotations the last letter of each quoted string moves to the
/// next letter and every digit to the next digit ("revision N-1" of the same files).
pub fn annotation_twist(text: &str) -> String {
    let b = text.as_bytes();
    let mut out = b.to_vec();
    let mut i = 0;
    while i < b.len() {
        let (start, end) = if b[i] == b'`' {
            let e = b[i + 1..].iter().position(|c| *c == b'`').map(|k| i + 1 + k).unwrap_or(b.len());
            (i + 1, e)
        } else if b[i] == b'#' && (i == 0 || b[i - 1] == b'\n' || b[i - 1] == b' ' || b[i - 1] == b'\t') {
            let e = b[i..].iter().position(|c| *c == b'\n' || *c == b'\r').map(|k| i + k).unwrap_or(b.len());
            (i + 1, e)
        } else {
            i += 1;
            continue;
        };
        let mut in_str = false;
        let mut last_alpha: Option<usize> = None;
        for k in start..end.min(b.len()) {
            let c = b[k];
            if c == b'"' {
                if in_str {
                    if let Some(p) = last_alpha {
                        out[p] = if b[p] == b'z' { b'a' } else if b[p] == b'Z' { b'A' } else { b[p] + 1 };
                    }
                }
                in_str = !in_str;
                last_alpha = None;
            } else if in_str && c.is_ascii_alphabetic() {
                last_alpha = Some(k);
            } else if !in_str && c.is_ascii_digit() && k > start && (b[k - 1] == b' ' || b[k - 1].is_ascii_digit()) {
                out[k] = if c == b'9' { b'1' } else { c + 1 };
            }
        }
        i = end + 1;
    }
    String::from_utf8(out).unwrap_or_else(|_| text.to_string())
}
