//! Seam S2: std's `RandomState` takes its per-thread keys from libc `getrandom`
//! (a weak symbol std documents as an interposition point). Defining the symbol
//! here makes the hash seed of every simulated run a value the simulator chose:
//! each run executes on a fresh thread whose first `HashMap` picks up keys derived
//! from the thread-local seed set just before.

use std::cell::Cell;
use std::sync::atomic::{AtomicU64, Ordering};

thread_local! {
    static SEED: Cell<Option<u64>> = const { Cell::new(None) };
    static CTR: Cell<u64> = const { Cell::new(0) };
    static CHILD: Cell<u64> = const { Cell::new(0) };
}

/// How many times the interposed `getrandom` served simulator-chosen bytes.
pub static SERVED: AtomicU64 = AtomicU64::new(0);

pub fn set_thread_seed(seed: u64) {
    SEED.with(|s| s.set(Some(seed)));
    CTR.with(|c| c.set(0));
    CHILD.with(|c| c.set(0));
}

/// Seed for the next thread this (seeded) thread starts: a function of its own seed and of
/// how many it has started before, so that a run's threads get the same keys in every
/// process and replay.
pub fn next_child_seed() -> u64 {
    let base = SEED.with(|s| s.get()).unwrap_or(0);
    let n = CHILD.with(|c| {
        let v = c.get();
        c.set(v + 1);
        v
    });
    let mut st = base ^ 0xA076_1D64_78BD_642F ^ n.wrapping_mul(0xE703_7ED1_A0B4_28DB);
    splitmix(&mut st)
}

fn splitmix(x: &mut u64) -> u64 {
    *x = x.wrapping_add(0x9E3779B97F4A7C15);
    let mut z = *x;
    z = (z ^ (z >> 30)).wrapping_mul(0xBF58476D1CE4E5B9);
    z = (z ^ (z >> 27)).wrapping_mul(0x94D049BB133111EB);
    z ^ (z >> 31)
}

/// # Safety
/// Called by libc clients with a valid buffer of `len` bytes.
#[no_mangle]
pub unsafe extern "C" fn getrandom(buf: *mut u8, len: usize, flags: u32) -> isize {
    let seed = SEED.try_with(|s| s.get()).ok().flatten();
    match seed {
        Some(seed) => {
            let n = CTR.with(|c| {
                let v = c.get();
                c.set(v + 1);
                v
            });
            let mut st = seed ^ n.wrapping_mul(0xD1B54A32D192ED03);
            let mut i = 0;
            while i < len {
                let v = splitmix(&mut st).to_le_bytes();
                let k = (len - i).min(8);
                std::ptr::copy_nonoverlapping(v.as_ptr(), buf.add(i), k);
                i += k;
            }
            SERVED.fetch_add(1, Ordering::Relaxed);
            len as isize
        }
        None => libc::syscall(libc::SYS_getrandom, buf, len, flags) as isize,
    }
}

/// Runs `f` on a fresh thread whose hash keys derive from `seed`.
/// Panics in `f` are returned as `Err(message)`.
pub fn on_fresh_thread<T: Send + 'static>(
    seed: u64,
    stack_mb: usize,
    f: impl FnOnce() -> T + Send + 'static,
) -> Result<T, String> {
    let h = std::thread::Builder::new()
        .stack_size(stack_mb << 20)
        .spawn(move || {
            set_thread_seed(seed);
            f()
        })
        .expect("spawn");
    h.join().map_err(|e| panic_message(&e))
}

pub fn panic_message(e: &Box<dyn std::any::Any + Send>) -> String {
    if let Some(s) = e.downcast_ref::<&str>() {
        s.to_string()
    } else if let Some(s) = e.downcast_ref::<String>() {
        s.clone()
    } else {
        "non-string panic payload".to_string()
    }
}

/// Order in which a std HashMap with the current thread's keys iterates 0..n
/// (used by the determinism self-test and as a probe that the seam is live).
pub fn hashmap_order_probe(n: u32) -> Vec<u32> {
    let m: std::collections::HashMap<u32, ()> = (0..n).map(|i| (i, ())).collect();
    m.keys().copied().collect()
}
