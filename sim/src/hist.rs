//! History plans: a chain of target states realised as protocol-legal edits
//! with idle ticks, requests, saves, closes and opens interleaved from the
//! `schedule` stream. Everything emitted is concrete (replayable without a PRNG).

use crate::gen::{self, GenCfg, Layout, ProgramAst, RMod};
use crate::lsp_sim::{Chg, Ev, ReqKind, Scenario, CONFIG};
use crate::position::{self, Pos};
use crate::prng::Rng;
use std::collections::BTreeMap;

pub type Files = BTreeMap<String, String>;

#[derive(Clone, Debug)]
pub struct Swarm {
    pub idle_pct: usize,
    pub req_pct: usize,
    pub edit_weights: [usize; 4],
    pub saves: bool,
    pub closes: bool,
    pub unsaved_closes: bool,
    pub folder_events: bool,
    pub out_of_range: u8,
    pub multibyte: u8,
    pub crlf: Vec<bool>,
    /// some line ends are a '\r' that no '\n' follows (the protocol's third line end)
    pub lone_cr: bool,
    pub max_events: usize,
    pub rename_loops: bool,
    /// a second, disjoint workspace folder `fb/` with its own program
    pub second_folder: bool,
    /// modules vanish from / come back to the disk behind the server's back
    pub external: bool,
    /// the client sometimes sends several messages without waiting for the server
    pub bursts: bool,
    /// the client opens and edits `oal.toml` itself (without saving)
    pub toml_edits: bool,
    /// 0: mixture; 1: each module on one very long line; 2: one token per line
    pub shape: u8,
    /// plain layout (single spaces, one statement per line, no comments): identifiers of
    /// different modules then often sit at the very same (line, column)
    pub aligned: bool,
}

pub fn swarm(rng: &mut Rng) -> Swarm {
    Swarm {
        idle_pct: *rng.pick(&[0, 10, 50]),
        req_pct: *rng.pick(&[0, 10, 25]),
        edit_weights: *rng.pick(&[[4, 3, 2, 1], [1, 0, 0, 0], [0, 1, 0, 0], [0, 0, 1, 0], [1, 1, 1, 3], [2, 4, 4, 0]]),
        saves: rng.chance(2, 3),
        closes: rng.chance(2, 3),
        unsaved_closes: rng.chance(1, 3),
        folder_events: rng.chance(1, 6),
        out_of_range: rng.below(3) as u8,
        multibyte: rng.below(3) as u8,
        crlf: (0..8).map(|_| rng.chance(1, 3)).collect(),
        lone_cr: rng.chance(1, 4),
        max_events: if rng.chance(1, 20) { rng.range(100, 300) } else { rng.range(5, 60) },
        rename_loops: rng.chance(1, 2),
        second_folder: rng.chance(1, 4),
        external: rng.chance(1, 3),
        bursts: rng.chance(1, 2),
        toml_edits: rng.chance(1, 4),
        aligned: rng.chance(1, 3),
        shape: *rng.pick(&[0, 0, 0, 0, 0, 0, 1, 2]),
    }
}

pub fn files_of(mods: &[RMod]) -> Files {
    mods.iter().map(|m| (m.path.clone(), m.text.clone())).collect()
}

/// (phase, text): each is rejected by the language whatever precedes it — if that is accepted
/// these lines are wrong on their own account, if not the program is rejected anyway.
pub const POISON_TRAILERS: &[(&str, &str)] = &[
    ("resolution", "let zz_undefined_use = { 'p zz_not_defined };"),
    ("type", "let zz_ill_typed = { 'a num } & str;"),
    ("cycle", "let zz_cyc_a = zz_cyc_b;\nlet zz_cyc_b = zz_cyc_a;"),
    ("cycle", "let zz_u = concat zz_u /zz;\nlet @zz_wf = { 'next @zz_wf };"),
    ("cycle", "let zz_f x = zz_g x;\nlet zz_g x = zz_f x;\nlet @zz_wf2 = { 'next @zz_wf2 };"),
    ("type", "let zz_deep = 'p ('q zz_deep);"),
    ("type", "let zz_deep_f x = 'p ('q (zz_deep_f x));"),
];

/// Error injection by phase; returns (phase, modified files).
pub fn inject_error(files: &Files, rng: &mut Rng) -> (&'static str, Files) {
    let mut f = files.clone();
    let paths: Vec<String> = f.keys().cloned().collect();
    let any = rng.pick(&paths).clone();
    let nl = if f[&any].contains("\r\n") { "\r\n" } else { "\n" };
    // the phase first (each equally likely), then one way of failing in it
    let kind = match rng.below(7) {
        0 => *rng.pick(&[0usize, 1, 9, 10, 11, 11]),
        1 => *rng.pick(&[2usize, 3]),
        2 => *rng.pick(&[4usize, 4, 14]),
        3 => *rng.pick(&[5usize, 5, 12, 13]),
        4 => *rng.pick(&[6usize, 6, 12]),
        5 => *rng.pick(&[7usize, 7, 12]),
        _ => 8,
    };
    let phase = match kind {
        0 => {
            // lexical: a character no token starts with
            let t = f.get_mut(&any).unwrap();
            let at = char_boundary(t, rng.below(t.len() + 1));
            t.insert(at, '^');
            "lexical"
        }
        1 => {
            let t = f.get_mut(&any).unwrap();
            t.push_str(&format!("{nl}let broken = \"unterminated ;{nl}"));
            "lexical"
        }
        10 => {
            // exactly N lexical errors (one per stray character), N around and at multiples of 256
            let n = *rng.pick(&[255usize, 256, 256, 257, 512]);
            let t = f.get_mut(&any).unwrap();
            t.push_str(nl);
            t.push_str(&"^".repeat(n));
            t.push_str(nl);
            "lexical"
        }
        11 => {
            // unexpected characters as the very last bytes: nothing follows, not even a newline
            // (half of the time in the main module on a line of their own: invalid whatever
            // the module holds, see `cli_sim::certainly_invalid`)
            if rng.chance(1, 2) {
                let t = f.get_mut("main.oal").unwrap();
                if !t.ends_with('\n') {
                    t.push_str(nl);
                }
                t.push_str(*rng.pick(&["^", "^^^"]));
            } else {
                let t = f.get_mut(&any).unwrap();
                while t.ends_with('\n') || t.ends_with('\r') || t.ends_with(' ') {
                    t.pop();
                }
                t.push_str(*rng.pick(&[" ^", "^^^", " \"never closed", " 😉"]));
            }
            "lexical"
        }
        12 => {
            // statements that are wrong whatever else the program holds, as the last lines of
            // the main module (see `cli_sim::certainly_invalid`)
            let k = rng.below(POISON_TRAILERS.len());
            let t = f.get_mut("main.oal").unwrap();
            if !t.ends_with('\n') {
                t.push_str(nl);
            }
            t.push_str(&POISON_TRAILERS[k].1.replace('\n', nl));
            t.push_str(nl);
            POISON_TRAILERS[k].0
        }
        14 => {
            // an import whose path leads *through* a regular file: it cannot be found
            f.insert("zz_plain_file.oal".into(), format!("let zz_plain = num;{nl}"));
            let t = f.get_mut("main.oal").unwrap();
            *t = format!("use \"zz_plain_file.oal/inner.oal\";{nl}{}", t);
            "import"
        }
        13 => {
            // an imported module that holds nothing but a resource, and that one is wrong
            f.insert("zz_only_res.oal".into(), format!("res /zz-only-res on get -> <zz_not_defined>;{nl}"));
            let t = f.get_mut("main.oal").unwrap();
            *t = format!("use \"zz_only_res.oal\";{nl}{}", t);
            "resolution"
        }
        9 => {
            // a byte order mark: no token starts with U+FEFF, every front end must reject it alike
            let t = f.get_mut(&any).unwrap();
            t.insert(0, '\u{feff}');
            "lexical"
        }
        2 => {
            // syntax: drop the last ';'
            let t = f.get_mut(&any).unwrap();
            if let Some(i) = t.rfind(';') {
                t.remove(i);
                "syntax"
            } else {
                t.push_str("let ;");
                "syntax"
            }
        }
        3 => {
            let t = f.get_mut(&any).unwrap();
            t.push_str(&format!("{nl}let unbalanced = {{ 'a [ num }};{nl}"));
            "syntax"
        }
        4 => {
            let t = f.get_mut("main.oal").unwrap();
            *t = format!("use \"nowhere{}.oal\";{nl}{}", rng.below(9), t);
            "import"
        }
        5 => {
            let t = f.get_mut(&any).unwrap();
            t.push_str(&format!("{nl}let undefined_use = {{ 'p zz_not_defined }};{nl}"));
            "resolution"
        }
        6 => {
            let t = f.get_mut(&any).unwrap();
            t.push_str(&format!("{nl}let ill_typed = {{ 'a num }} & str;{nl}"));
            "type"
        }
        7 => {
            let t = f.get_mut(&any).unwrap();
            t.push_str(&format!("{nl}let cyc_a = cyc_b;{nl}let cyc_b = cyc_a;{nl}"));
            "cycle"
        }
        _ => {
            let t = f.get_mut("main.oal").unwrap();
            if rng.chance(1, 3) {
                // numbers that are no status, among them some that look like one after a
                // narrowing conversion (see `cli_sim::certainly_invalid`)
                let n: u64 = *rng.pick(&[0, 99, 600, 999, 65535, 65736, 65940, 131272, 4294967496, 4295032936, 18446744073709551]);
                t.push_str(&format!("{nl}res /zz-no-such-status on get -> <status={n}, {{}}>;{nl}"));
            } else if rng.chance(1, 2) {
                t.push_str(&format!("{nl}res /bad-status on get -> <status=999, {{}}>;{nl}"));
            } else {
                t.push_str(&format!("{nl}res /bad-ann on get -> <{{}}> `: : :`;{nl}"));
            }
            "evaluation"
        }
    };
    (phase, f)
}

/// A variant of `files` in which every byte offset keeps its meaning but line / UTF-16
/// column structure changes: "é" (2 bytes, 1 unit) → "ee" (2 bytes, 2 units), one ";\n" → "; ",
/// one "  " → "\n ". An error that survives such an edit keeps its byte span while its
/// editor range moves.
pub fn same_bytes_twist(files: &Files, rng: &mut Rng) -> Files {
    let mut f = files.clone();
    let paths: Vec<String> = f.keys().cloned().collect();
    let p = rng.pick(&paths).clone();
    let t = f.get_mut(&p).unwrap();
    let mut ops: Vec<u8> = vec![0, 1, 2];
    rng.shuffle(&mut ops);
    let n = rng.range(1, 3);
    for op in ops.into_iter().take(n) {
        match op {
            0 => *t = t.replace('é', "ee"),
            1 => {
                let idx: Vec<usize> = t.match_indices(";\n").map(|(i, _)| i).collect();
                if !idx.is_empty() {
                    let i = *rng.pick(&idx);
                    t.replace_range(i..i + 2, "; ");
                }
            }
            _ => {
                let idx: Vec<usize> = t.match_indices("  ").map(|(i, _)| i).collect();
                if !idx.is_empty() {
                    let i = *rng.pick(&idx);
                    t.replace_range(i..i + 2, "\n ");
                }
            }
        }
    }
    f
}

pub fn char_boundary(t: &str, mut i: usize) -> usize {
    i = i.min(t.len());
    while i > 0 && !t.is_char_boundary(i) {
        i -= 1;
    }
    // never between '\r' and '\n'
    if i > 0 && i < t.len() && t.as_bytes()[i - 1] == b'\r' && t.as_bytes()[i] == b'\n' {
        i -= 1;
    }
    i
}

fn pos_of(text: &str, off: usize, sw: &Swarm, rng: &mut Rng) -> Pos {
    let mut p = position::to_pos(text, off);
    if sw.out_of_range > 0 && rng.chance(1, 6) {
        // beyond the end of the line must clamp to the line's end
        let ls = position::line_starts(text);
        let li = p.line as usize;
        let le = position::line_content_end(text, &ls, li);
        if off == le {
            p.character += 1 + rng.below(9) as u32;
        }
        if sw.out_of_range > 1 && off == text.len() && rng.chance(1, 2) {
            p = Pos {
                line: ls.len() as u32 + rng.below(3) as u32,
                character: rng.below(4) as u32,
            };
        }
    }
    p
}

/// Notifications (each a list of content changes) turning `cur` into `tgt`.
pub fn make_edits(cur: &str, tgt: &str, sw: &Swarm, rng: &mut Rng) -> Vec<Vec<Chg>> {
    if cur == tgt {
        return vec![];
    }
    let style = rng.weighted(&sw.edit_weights);
    if style == 3 {
        return vec![vec![Chg {
            range: None,
            text: tgt.to_string(),
        }]];
    }
    // single hunk by common prefix / suffix, on character boundaries
    let mut pre = cur.bytes().zip(tgt.bytes()).take_while(|(a, b)| a == b).count();
    pre = char_boundary(cur, pre).min(char_boundary(tgt, pre));
    while !(cur.is_char_boundary(pre) && tgt.is_char_boundary(pre)) {
        pre -= 1;
    }
    let mut suf = cur[pre..].bytes().rev().zip(tgt[pre..].bytes().rev()).take_while(|(a, b)| a == b).count();
    while suf > 0 && !(cur.is_char_boundary(cur.len() - suf) && tgt.is_char_boundary(tgt.len() - suf)) {
        suf -= 1;
    }
    // do not split "\r\n" on either side
    let bad = |t: &str, i: usize| i > 0 && i < t.len() && t.as_bytes()[i - 1] == b'\r' && t.as_bytes()[i] == b'\n';
    while pre > 0 && (bad(cur, pre) || bad(tgt, pre)) {
        pre -= 1;
        while !(cur.is_char_boundary(pre) && tgt.is_char_boundary(pre)) {
            pre -= 1;
        }
    }
    while suf > 0 && (bad(cur, cur.len() - suf) || bad(tgt, tgt.len() - suf)) {
        suf -= 1;
        while suf > 0 && !(cur.is_char_boundary(cur.len() - suf) && tgt.is_char_boundary(tgt.len() - suf)) {
            suf -= 1;
        }
    }
    let del_end = cur.len() - suf;
    let ins = &tgt[pre..tgt.len() - suf];
    let mut text = cur.to_string();
    let mut changes: Vec<Chg> = Vec::new();
    let mut push = |text: &mut String, a: usize, b: usize, new: &str, rng: &mut Rng| {
        let s = position::to_pos(text, a);
        let e = pos_of(text, b, sw, rng);
        let c = Chg {
            range: Some((s, e)),
            text: new.to_string(),
        };
        position::apply_change(text, c.range, &c.text);
        changes.push(c);
    };
    match style {
        0 => push(&mut text, pre, del_end, ins, rng),
        _ => {
            // delete the old region in chunks (from its end), then type the new text in chunks
            let mut end = del_end;
            let nchunks = if style == 2 { rng.range(1, 2) } else { rng.range(1, 3) };
            for k in 0..nchunks {
                if end <= pre {
                    break;
                }
                let mut a = if k + 1 == nchunks { pre } else { pre + rng.below(end - pre + 1) };
                a = char_boundary(&text, a).max(pre);
                if a >= end {
                    a = pre;
                }
                push(&mut text, a, end, "", rng);
                end = a;
            }
            if end > pre {
                push(&mut text, pre, end, "", rng);
            }
            let mut at = pre;
            let mut rest = ins;
            let typing = style == 2 && ins.chars().count() <= 24;
            while !rest.is_empty() {
                let mut n = if typing { rest.chars().next().unwrap().len_utf8() } else { 1 + rng.below(rest.len().min(40)) };
                n = char_boundary(rest, n);
                if n == 0 {
                    n = rest.chars().next().unwrap().len_utf8();
                }
                // keep "\r\n" together
                if n < rest.len() && rest.as_bytes()[n - 1] == b'\r' && rest.as_bytes()[n] == b'\n' {
                    n += 1;
                }
                let (chunk, r2) = rest.split_at(n);
                push(&mut text, at, at, chunk, rng);
                at += chunk.len();
                rest = r2;
            }
        }
    }
    debug_assert_eq!(text, tgt);
    if text != tgt {
        // defensive: fall back to a full replacement so the plan still reaches its target
        return vec![vec![Chg {
            range: None,
            text: tgt.to_string(),
        }]];
    }
    // group into notifications of 1..4 changes
    let mut out: Vec<Vec<Chg>> = Vec::new();
    let mut it = changes.into_iter().peekable();
    let mut before = cur.to_string();
    while it.peek().is_some() {
        let n = rng.range(1, 4);
        let mut note: Vec<Chg> = it.by_ref().take(n).collect();
        let mut after = before.clone();
        for c in &note {
            position::apply_change(&mut after, c.range, &c.text);
        }
        // now and then a notification mixes both kinds of change: the whole text as it was,
        // then the ranged edits; or the ranged edits, then the whole text as it has become
        match rng.below(16) {
            0 => note.insert(0, Chg { range: None, text: before.clone() }),
            1 => note.push(Chg { range: None, text: after.clone() }),
            2 => {
                note.insert(0, Chg { range: None, text: before.clone() });
                note.push(Chg { range: None, text: after.clone() });
            }
            _ => {}
        }
        before = after;
        out.push(note);
    }
    out
}

pub fn random_pos(text: &str, sw: &Swarm, rng: &mut Rng) -> Pos {
    let off = char_boundary(text, rng.below(text.len() + 1));
    pos_of(text, off, sw, rng)
}

#[derive(Clone, Debug)]
pub struct Target {
    pub files: Files,
    /// When the target is a rendering of a generator program: which, with its layout.
    pub program: Option<(usize, Layout)>,
    pub kind: &'static str,
}

pub struct Plan {
    pub scenario: Scenario,
    pub programs: Vec<ProgramAst>,
    pub targets: Vec<Target>,
    pub swarm: Swarm,
    /// event index → target index reached just before it (for semantic checkpoints)
    pub reached: BTreeMap<usize, usize>,
}

/// Which semantic oracle a plan carries.
#[derive(Clone, Copy, PartialEq)]
pub enum Sem {
    None,
    C17,
    C18,
}

struct Builder<'a> {
    events: Vec<Ev>,
    disk: Files,
    open: BTreeMap<String, String>,
    sw: &'a Swarm,
    sched: &'a mut Rng,
    folder_present: bool,
    folder_b_present: bool,
    deleted: BTreeMap<String, String>,
    /// states the second folder's files alternate between
    b_variants: Vec<Files>,
    /// where the last prepareRename was asked (a rename often follows at the same place)
    prepared: Option<(String, Pos)>,
    /// the main module `oal.toml` names on disk at the moment
    main_now: String,
}

impl Builder<'_> {
    fn effective(&self, p: &str) -> Option<&String> {
        self.open.get(p).or_else(|| self.disk.get(p))
    }
    fn full(&self) -> bool {
        self.events.len() >= self.sw.max_events
    }
    fn random_request(&mut self) {
        let paths: Vec<String> = self.disk.keys().chain(self.open.keys()).cloned().collect();
        if paths.is_empty() {
            return;
        }
        let path = self.sched.pick(&paths).clone();
        let text = self.effective(&path).cloned().unwrap_or_default();
        let mut pos = random_pos(&text, self.sw, self.sched);
        if self.sched.chance(3, 5) && !text.is_empty() {
            // aim at a word: scan from a random offset to the next ASCII letter that starts one
            let b = text.as_bytes();
            let start = self.sched.below(b.len());
            for k in 0..b.len() {
                let i = (start + k) % b.len();
                if b[i].is_ascii_alphabetic() && (i == 0 || !(b[i - 1].is_ascii_alphanumeric() || b[i - 1] == b'_' || b[i - 1] == b'\'' || b[i - 1] == b'@')) {
                    pos = position::to_pos(&text, i + if i + 1 < b.len() && b[i + 1].is_ascii_alphanumeric() { self.sched.below(2) } else { 0 });
                    break;
                }
            }
        }
        let kind = *self.sched.pick(&[ReqKind::Definition, ReqKind::References, ReqKind::PrepareRename, ReqKind::Rename]);
        let new_name = if kind == ReqKind::Rename { Some(format!("fresh_{}", self.sched.below(100))) } else { None };
        let (path, pos) = match (&self.prepared, kind) {
            // the rename that follows a prepareRename, whatever else happened in between
            (Some((p, q)), ReqKind::Rename) if self.effective(p).is_some() && self.sched.chance(2, 3) => (p.clone(), *q),
            _ => (path, pos),
        };
        if kind == ReqKind::PrepareRename {
            self.prepared = Some((path.clone(), pos));
        }
        if self.sw.rename_loops && kind == ReqKind::Rename && self.sched.chance(1, 2) {
            // the closed loop edits buffers: track the result lazily (the executor is the
            // source of truth; the plan only needs buffers to compute later diffs, so a
            // rename loop is always followed by full-text resynchronisation of the plan).
            self.events.push(Ev::RenameLoop {
                path,
                pos,
                new_name: new_name.unwrap(),
            });
            self.events.push(Ev::Checkpoint);
            return;
        }
        // one request in four is not waited for: the next notification follows it at once
        let pipelined = self.sched.chance(1, 4);
        self.events.push(Ev::Request { kind, path, pos, new_name, pipelined });
    }
    /// The client opens the folder's `oal.toml` like any other document, edits it — never
    /// saving: what is on disk stays what the folder was configured with — and closes it.
    fn toml_event(&mut self) {
        let p = "oal.toml".to_string();
        match self.open.get(&p).cloned() {
            None => {
                self.open.insert(p.clone(), CONFIG.to_string());
                self.events.push(Ev::Open { path: p, text: CONFIG.to_string() });
            }
            Some(cur) if self.sched.chance(2, 3) => {
                let others: Vec<String> = self.disk.keys().filter(|k| !k.ends_with("main.oal")).cloned().collect();
                let tgt = match self.sched.below(5) {
                    0 => CONFIG.to_string(),
                    1 | 2 if !others.is_empty() => format!("[api]\nmain = \"{}\"\ntarget = \"out.yaml\"\n", self.sched.pick(&others)),
                    3 => "[api\nmain = ".to_string(),
                    4 => String::new(),
                    _ => format!("{CONFIG}# note\n"),
                };
                let mut t = cur.clone();
                for changes in make_edits(&cur, &tgt, self.sw, self.sched) {
                    for c in &changes {
                        position::apply_change(&mut t, c.range, &c.text);
                    }
                    self.events.push(Ev::Change { path: p.clone(), changes });
                }
                self.open.insert(p, t);
            }
            Some(_) => {
                self.open.remove(&p);
                self.events.push(Ev::Close { path: p });
            }
        }
    }
    /// Events drawn from the schedule stream between two client notifications.
    fn interleave(&mut self) {
        if self.full() {
            return;
        }
        if self.sched.chance(self.sw.idle_pct, 100) {
            self.events.push(Ev::Idle);
            if self.sched.chance(1, 30) {
                // a long quiet period: the timer fires again and again
                for _ in 0..self.sched.range(3, 40) {
                    self.events.push(Ev::Idle);
                }
            }
        }
        if self.sched.chance(self.sw.req_pct, 100) {
            self.random_request();
        }
        if self.sw.closes && self.sched.chance(1, 25) {
            // close some open document (saved or not)
            let opens: Vec<String> = self.open.keys().cloned().collect();
            if !opens.is_empty() {
                let p = self.sched.pick(&opens).clone();
                let saved = self.disk.get(&p) == self.open.get(&p);
                if saved || self.sw.unsaved_closes {
                    self.open.remove(&p);
                    self.events.push(Ev::Close { path: p });
                }
            }
        }
        if self.sched.chance(1, 25) {
            // open an unrelated document from disk
            let closed: Vec<String> = self.disk.keys().filter(|p| !self.open.contains_key(*p)).cloned().collect();
            if !closed.is_empty() {
                let p = self.sched.pick(&closed).clone();
                let t = self.disk[&p].clone();
                self.open.insert(p.clone(), t.clone());
                self.events.push(Ev::Open { path: p, text: t });
            }
        }
        if self.sw.folder_events && self.sched.chance(1, 20) {
            if !self.b_variants.is_empty() && self.sched.chance(1, 2) {
                self.folder_b_present = !self.folder_b_present;
                self.events.push(Ev::Folder { add: self.folder_b_present, b: true });
            } else {
                self.folder_present = !self.folder_present;
                self.events.push(Ev::Folder { add: self.folder_present, b: false });
            }
        }
        if self.sched.chance(1, 60) && self.folder_present {
            // the folder is announced a second time
            self.events.push(Ev::Folder { add: true, b: false });
        }
        if self.sw.folder_events && self.sched.chance(1, 25) && !self.full() {
            // the configuration changes on disk, then the folder is announced again (or for
            // the first time again): that is when a server reads it
            let mods: Vec<String> = self.disk.keys().filter(|p| !p.starts_with("fb/")).cloned().collect();
            if !mods.is_empty() {
                let main = if self.sched.chance(1, 3) { "main.oal".to_string() } else { self.sched.pick(&mods).clone() };
                self.main_now = main.clone();
                self.events.push(Ev::ConfigOnDisk { main });
                if self.folder_present && self.sched.chance(1, 3) {
                    self.events.push(Ev::FolderReadd { b: false });
                } else {
                    self.folder_present = true;
                    self.events.push(Ev::Folder { add: true, b: false });
                }
            }
        }
        if self.sched.chance(1, 40) {
            // re-read the configuration: removed and added in one notification
            let b = !self.b_variants.is_empty() && self.sched.chance(1, 2);
            if (b && self.folder_b_present) || (!b && self.folder_present) {
                self.events.push(Ev::FolderReadd { b });
            }
        }
        if self.sw.external && self.sched.chance(1, 15) {
            // a module that is not open vanishes from disk
            let cands: Vec<String> = self.disk.keys().filter(|p| !self.open.contains_key(*p) && !p.ends_with("main.oal") && **p != self.main_now).cloned().collect();
            if !cands.is_empty() {
                let p = self.sched.pick(&cands).clone();
                let t = self.disk.remove(&p).unwrap();
                self.deleted.insert(p.clone(), t);
                // ... or stays but cannot be read: a directory in its place, bytes that are not UTF-8
                let how = *self.sched.pick(&[0u8, 0, 1, 2]);
                self.events.push(Ev::DiskDelete { path: p, how });
            }
        }
        if !self.deleted.is_empty() && self.sched.chance(1, 5) {
            let p = self.deleted.keys().next().unwrap().clone();
            if !self.open.contains_key(&p) {
                let t = self.deleted.remove(&p).unwrap();
                self.disk.insert(p.clone(), t);
                self.events.push(Ev::DiskRestore { path: p });
            }
        }
        if !self.b_variants.is_empty() && self.sched.chance(1, 8) {
            // the second folder's program moves to another of its states
            let k = self.sched.below(self.b_variants.len());
            let want = self.b_variants[k].clone();
            for (p, text) in want {
                if self.full() {
                    break;
                }
                if self.effective(&p) == Some(&text) {
                    continue;
                }
                if !self.open.contains_key(&p) {
                    let Some(cur) = self.disk.get(&p).cloned() else { continue };
                    self.open.insert(p.clone(), cur.clone());
                    self.events.push(Ev::Open { path: p.clone(), text: cur });
                }
                let cur = self.open[&p].clone();
                let mut t = cur.clone();
                for changes in make_edits(&cur, &text, self.sw, self.sched) {
                    for c in &changes {
                        position::apply_change(&mut t, c.range, &c.text);
                    }
                    self.events.push(Ev::Change { path: p.clone(), changes });
                }
                self.open.insert(p.clone(), t);
                if self.sched.chance(1, 3) {
                    self.open.remove(&p);
                    self.events.push(Ev::Close { path: p.clone() });
                }
            }
        }
        if self.sched.chance(1, 40) && !self.full() {
            // an open document is announced again, with the text the client has for it
            let opens: Vec<String> = self.open.keys().cloned().collect();
            if !opens.is_empty() {
                let p = self.sched.pick(&opens).clone();
                let text = self.open[&p].clone();
                self.events.push(Ev::Reopen { path: p, text });
            }
        }
        if self.sw.toml_edits && self.sched.chance(1, 10) && !self.full() {
            self.toml_event();
        }
        if self.sched.chance(1, 25) && !self.full() {
            // what every editor sends besides: the server has no handler for it
            let kind = self.sched.below(5) as u8;
            self.events.push(Ev::Noise { kind });
        }
        if self.sw.bursts && self.sched.chance(1, 5) && !self.full() {
            // the client stops waiting for a while
            let n = self.sched.range(2, 5) as u8;
            self.events.push(Ev::Burst { n });
        }
    }
}

pub fn c15_gen_cfg(rng: &mut Rng, giant_ok: bool, clash_ok: bool) -> GenCfg {
    if rng.chance(1, 20) && giant_ok {
        // a very large module (tens of kilobytes; on one line under layout shape 1)
        return GenCfg {
            max_modules: 2,
            min_decls: 6,
            max_decls: 14,
            max_depth: 3,
            examples_bias: 2,
            shadow_bias: 5,
            res_range: (50, 100),
            odd_spellings: false,
            clashing_imports: false,
        };
    }
    GenCfg {
        max_modules: rng.range(1, 4),
        min_decls: 1,
        max_decls: rng.range(2, 6),
        max_depth: rng.range(1, 3),
        examples_bias: 2,
        shadow_bias: 5,
        res_range: (1, 3),
        odd_spellings: false,
        clashing_imports: clash_ok && rng.chance(1, 3),
    }
}

/// Builds the history plan of run (seed, prop, run).
pub fn plan(seed: u64, prop: &str, run: u64, sem: Sem) -> Plan {
    let semantic = sem != Sem::None;
    let mut sem_targets: Vec<crate::sem::SemTarget> = Vec::new();
    let mut wl = Rng::stream(seed, prop, run, "workload");
    let mut sched = Rng::stream(seed, prop, run, "schedule");
    let mut env = Rng::stream(seed, prop, run, "env");
    let mut sw = swarm(&mut sched);
    if semantic {
        // Semantic oracles need the history to arrive at accepted generator programs,
        // and run in single-folder workspaces ("all modules of the folder").
        sw.second_folder = false;
        sw.folder_events = false;
        sw.rename_loops = false;
        sw.max_events = 60;
        sw.unsaved_closes = sw.unsaved_closes && sched.chance(1, 3);
    }
    let cfg = c15_gen_cfg(&mut wl, !semantic, sem != Sem::C18);
    let giant = cfg.res_range.0 >= 50;
    let mut programs = vec![gen::generate(&mut wl, &cfg)];
    let layout = |wl: &mut Rng, sw: &Swarm| Layout {
        seed: wl.next_u64(),
        multibyte: if sw.aligned { 0 } else { sw.multibyte },
        crlf: sw.crlf.clone(),
        lone_cr: sw.lone_cr,
        comments: !sw.aligned,
        shape: sw.shape,
    };
    let l0 = layout(&mut wl, &sw);
    let base_files = files_of(&gen::render(&programs[0], &l0));
    let mut disk = base_files.clone();
    if wl.chance(1, 5) {
        disk.insert("extra.oal".into(), "let unreachable = num;\n".into());
    }
    if wl.chance(1, 6) {
        // the disk copy of one module is an older, broken variant; the client opens the good one
        let (_, broken) = inject_error(&base_files, &mut wl);
        disk = broken;
    }
    let mut targets = vec![Target {
        files: base_files.clone(),
        program: Some((0, l0.clone())),
        kind: "base",
    }];
    let ntargets = wl.range(1, 6);
    for _ in 0..ntargets {
        let k = wl.weighted(&[3, 4, 2, 2, 3, 2]);
        let t = match k {
            0 => {
                let l = layout(&mut wl, &sw);
                let pi = wl.below(programs.len());
                Target {
                    files: files_of(&gen::render(&programs[pi], &l)),
                    program: Some((pi, l)),
                    kind: "relayout",
                }
            }
            1 => {
                let prev = targets[wl.below(targets.len())].files.clone();
                let (phase, f) = inject_error(&prev, &mut wl);
                let _ = phase;
                Target {
                    files: f,
                    program: None,
                    kind: "error_injected",
                }
            }
            2 => {
                programs.push(gen::generate(&mut wl, &cfg));
                let l = layout(&mut wl, &sw);
                let pi = programs.len() - 1;
                Target {
                    files: files_of(&gen::render(&programs[pi], &l)),
                    program: Some((pi, l)),
                    kind: "other_program",
                }
            }
            3 => {
                let back = targets[0].clone();
                Target { kind: "back_to_base", ..back }
            }
            5 => {
                // the latest state with one more declaration on top of an imported module: the
                // program means what it meant, every syntax node of that module moves
                let prev = targets.last().unwrap().files.clone();
                let mut f = prev.clone();
                let others: Vec<String> = f.keys().filter(|p| !p.ends_with("main.oal")).cloned().collect();
                let p = if others.is_empty() { "main.oal".to_string() } else { wl.pick(&others).clone() };
                if let Some(t) = f.get_mut(&p) {
                    let nl = if t.contains("\r\n") { "\r\n" } else { "\n" };
                    let at = if t.starts_with('\u{feff}') { 3 } else { 0 };
                    t.insert_str(at, &format!("let zz_extra{} = {{ 'zz num }};{nl}", wl.below(1000)));
                }
                Target {
                    files: f,
                    program: None,
                    kind: "declaration_added_on_top",
                }
            }
            _ => {
                // byte-offset preserving re-layout of the latest state (often an erroneous one)
                let prev = targets.last().unwrap().files.clone();
                Target {
                    files: same_bytes_twist(&prev, &mut wl),
                    program: None,
                    kind: "same_bytes_twist",
                }
            }
        };
        targets.push(t);
    }

    // Every file any target needs exists on disk from the start (empty if it is not part of
    // the initial state): saving never changes which files exist.
    for t in targets.iter() {
        for p in t.files.keys() {
            disk.entry(p.clone()).or_default();
        }
    }
    // the second folder: a small program of its own under fb/, alternating between an
    // accepted and an erroneous state
    let mut b_variants: Vec<Files> = Vec::new();
    if sw.second_folder {
        let cfg_b = GenCfg {
            max_modules: 2,
            min_decls: 1,
            max_decls: 3,
            max_depth: 2,
            examples_bias: 1,
            shadow_bias: 3,
            res_range: (1, 2),
            odd_spellings: false,
            clashing_imports: false,
        };
        let ast_b = gen::generate(&mut wl, &cfg_b);
        let lb = layout(&mut wl, &sw);
        let good: Files = gen::render(&ast_b, &lb).into_iter().map(|m| (format!("fb/{}", m.path), m.text)).collect();
        let (_, bad) = inject_error(&good.iter().map(|(p, t)| (p[3..].to_string(), t.clone())).collect(), &mut wl);
        let bad: Files = bad.into_iter().map(|(p, t)| (format!("fb/{p}"), t)).collect();
        for (p, t) in good.iter() {
            disk.insert(p.clone(), t.clone());
        }
        b_variants = vec![good, bad];
    }
    let uri_plus = !semantic && env.chance(1, 3);
    // semantic runs: in a quarter of them a second folder shares a module with the first
    let shared_folder = semantic && wl.chance(1, 4);
    if shared_folder {
        disk.insert("fb/main.oal".into(), "res /fbres on get -> <>;\n".into());
    }
    let mut b = Builder {
        events: Vec::new(),
        disk: disk.clone(),
        open: BTreeMap::new(),
        sw: &sw,
        sched: &mut sched,
        folder_present: true,
        folder_b_present: sw.second_folder || shared_folder,
        deleted: BTreeMap::new(),
        b_variants,
        prepared: None,
        main_now: "main.oal".into(),
    };
    let mut reached = BTreeMap::new();
    if giant {
        // the server gets to look at the large module as it is on disk first
        b.random_request();
        b.events.push(Ev::Idle);
        b.random_request();
    }
    for (ti, tgt) in targets.iter().enumerate() {
        if b.full() {
            break;
        }
        let mut paths: Vec<String> = tgt.files.keys().cloned().collect();
        b.sched.shuffle(&mut paths);
        // now and then: prepareRename in the document that will be edited last, the rename
        // itself at the same place once another document has changed
        let mut probe: Option<(String, Pos)> = None;
        if !semantic && paths.len() >= 2 && b.sched.chance(1, 3) {
            let x = paths.last().unwrap().clone();
            if let Some(text) = b.effective(&x).cloned() {
                // preferably the member of a qualified name: it is declared in another module
                let bytes = text.as_bytes();
                let members: Vec<usize> = (1..bytes.len().saturating_sub(1))
                    .filter(|i| bytes[*i] == b'.' && bytes[*i - 1].is_ascii_alphanumeric() && bytes[*i + 1].is_ascii_alphabetic())
                    .map(|i| i + 1)
                    .collect();
                let words: Vec<usize> = (0..bytes.len()).filter(|i| bytes[*i].is_ascii_alphabetic() && (*i == 0 || bytes[*i - 1] == b' ')).collect();
                let pool = if !members.is_empty() && b.sched.chance(3, 4) { &members } else { &words };
                if !pool.is_empty() {
                    let off = *b.sched.pick(pool);
                    let pos = position::to_pos(&text, off);
                    b.events.push(Ev::Request { kind: ReqKind::PrepareRename, path: x.clone(), pos, new_name: None, pipelined: false });
                    probe = Some((x, pos));
                }
            }
        }
        for p in paths {
            if b.full() {
                break;
            }
            if let Some((x, pos)) = probe.clone() {
                // (`x` is the last to be edited: it has not changed even when it is its turn)
                if b.events.iter().rev().take_while(|e| !matches!(e, Ev::Request { kind: ReqKind::PrepareRename, .. })).any(|e| matches!(e, Ev::Change { .. })) {
                    // something else changed meanwhile; `x` itself did not
                    let new_name = Some(format!("fresh_{}", b.sched.below(100)));
                    b.events.push(Ev::Request { kind: ReqKind::Rename, path: x, pos, new_name, pipelined: false });
                    probe = None;
                }
            }
            let want = &tgt.files[&p];
            if b.effective(&p) == Some(want) {
                continue;
            }
            if !b.open.contains_key(&p) {
                // (a very large module is opened with another text than the file's half of the
                // time: whatever the server derived from its disk copy must not survive that)
                let direct = if giant { b.sched.chance(1, 2) } else { b.sched.chance(1, 6) };
                let text = match b.disk.get(&p) {
                    Some(t) if !direct => t.clone(),
                    _ => want.clone(), // new file, or opened directly with the (unsaved) target text
                };
                b.open.insert(p.clone(), text.clone());
                b.events.push(Ev::Open { path: p.clone(), text });
                b.interleave();
            }
            let Some(cur) = b.open.get(&p).cloned() else {
                continue; // the interleaving closed it again
            };
            let notes = make_edits(&cur, want, b.sw, b.sched);
            let mut text = cur;
            for changes in notes {
                for c in &changes {
                    position::apply_change(&mut text, c.range, &c.text);
                }
                b.open.insert(p.clone(), text.clone());
                b.events.push(Ev::Change { path: p.clone(), changes });
                b.interleave();
                if b.full() {
                    break;
                }
                // the interleaving may have closed this very document
                if !b.open.contains_key(&p) {
                    break;
                }
            }
            if b.open.contains_key(&p) {
                // (under the %2B spelling the server takes the buffer for another document than
                // the file, so saving it would be an external modification of a cached file)
                if b.sw.saves && b.sched.chance(1, 2) && b.disk.contains_key(&p) && !(uri_plus && p.contains('+')) {
                    b.disk.insert(p.clone(), b.open[&p].clone());
                    b.events.push(Ev::Save { path: p.clone() });
                }
                if b.sw.closes && b.sched.chance(1, 3) {
                    let saved = b.disk.get(&p) == b.open.get(&p);
                    if saved || (b.sw.unsaved_closes && b.sched.chance(1, 3)) {
                        b.open.remove(&p);
                        b.events.push(Ev::Close { path: p.clone() });
                        b.interleave();
                    }
                }
            }
        }
        // files of the previous state that the target does not have stay on disk (unreachable)
        let at_target = tgt.files.iter().all(|(p, t)| b.effective(p) == Some(t));
        if at_target {
            reached.insert(b.events.len(), ti);
            if let (true, Some((pi, l))) = (semantic, tgt.program.as_ref()) {
                let mods = gen::render(&programs[*pi], l);
                let mut r = Rng::from_u64(crate::prng::mix_u64(l.seed, ti as u64));
                let mut st = crate::sem::build_target(&programs[*pi], &mods, &mut r);
                if shared_folder {
                    // the second folder's main follows the program it shares a module with
                    if crate::sem::add_shared_folder(&mut st, &programs[*pi], ti) {
                        let want = st.files["fb/main.oal"].clone();
                        if b.effective("fb/main.oal") != Some(&want) {
                            if !b.open.contains_key("fb/main.oal") {
                                let cur = b.disk.get("fb/main.oal").cloned().unwrap_or_default();
                                b.open.insert("fb/main.oal".into(), cur.clone());
                                b.events.push(Ev::Open { path: "fb/main.oal".into(), text: cur });
                            }
                            b.open.insert("fb/main.oal".into(), want.clone());
                            b.events.push(Ev::Change {
                                path: "fb/main.oal".into(),
                                changes: vec![Chg { range: None, text: want }],
                            });
                        }
                    }
                }
                sem_targets.push(st);
                // sometimes quiesce first, sometimes let the first request meet a stale server
                if b.sched.chance(1, 2) {
                    b.events.push(Ev::Idle);
                }
                b.events.push(Ev::Sem {
                    target: sem_targets.len() - 1,
                    mode: if sem == Sem::C17 { "C17".into() } else { "C18".into() },
                });
            }
        }
        if b.sched.chance(2, 3) {
            b.events.push(Ev::Checkpoint);
        }
    }
    if !b.folder_present {
        b.events.push(Ev::Folder { add: true, b: false });
    }
    if sw.second_folder && !b.folder_b_present {
        b.events.push(Ev::Folder { add: true, b: true });
    }
    if !b.deleted.is_empty() || b.events.iter().rev().take(6).any(|e| matches!(e, Ev::DiskDelete { .. } | Ev::DiskRestore { .. })) {
        // everything comes back, and one more notification lets the server notice
        for (p, _) in std::mem::take(&mut b.deleted) {
            b.events.push(Ev::DiskRestore { path: p });
        }
        let closed: Vec<String> = b.disk.keys().filter(|p| !b.open.contains_key(*p)).cloned().collect();
        if let Some(p) = closed.first() {
            b.events.push(Ev::Open { path: p.clone(), text: b.disk[p].clone() });
            b.events.push(Ev::Close { path: p.clone() });
        }
    }
    b.events.push(Ev::Checkpoint);
    let events = b.events;
    Plan {
        scenario: Scenario {
            config: CONFIG.to_string(),
            disk,
            hash_seed: env.next_u64(),
            events,
            sem: sem_targets,
            folder_b: sw.second_folder || shared_folder,
            version_base: *env.pick(&[1, 1, 1, 0, 100_000, i32::MAX - 40, -5]),
            // only outside semantic runs: under that spelling the server (consistently) takes
            // the open buffer for another document than the module it loads from disk
            uri_plus_encoded: uri_plus,
            config_b: if sw.second_folder {
                match env.below(8) {
                    0 => Some("[api]\ntarget = \"out.yaml\"\n".to_string()),
                    1 => Some("this is = not [ toml".to_string()),
                    2 => Some("[api]\nmain = \"nowhere.oal\"\n".to_string()),
                    _ => None,
                }
            } else {
                None
            },
        },
        programs,
        targets,
        swarm: sw,
        reached,
    }
}
