//! C10 — `module::load` driven against a simulated store through the public
//! `Loader<E>` seam (S5). Real code: `module::load`, `Locator::join`,
//! `oal_syntax::parse`, `compile::compile`. Stub: the file store, the fault plan.

use crate::prng::{digest64, Rng};
use crate::report::{Found, Report};
use oal_compiler::errors::{Error, Kind};
use oal_compiler::module::{Loader, ModuleSet};
use oal_compiler::tree::Tree;
use oal_model::locator::Locator;
use serde::{Deserialize, Serialize};
use std::collections::{BTreeMap, BTreeSet};

pub const ROOT: &str = "file:///w/";

#[derive(Serialize, Deserialize, Clone, Debug, PartialEq)]
pub enum Target {
    Module(usize),
    Missing(String),
}

#[derive(Serialize, Deserialize, Clone, Debug, PartialEq)]
pub struct Import {
    pub target: Target,
    /// 0: plain relative, 1: "./" prefix, 2: "zz/../" prefix, 3: "./zz/./../" prefix
    pub spelling: u8,
    pub qualified: bool,
}

#[derive(Serialize, Deserialize, Clone, Debug, PartialEq)]
pub struct ModuleSpec {
    /// Path relative to ROOT, e.g. "m0.oal" or "d1/m2.oal".
    pub path: String,
    pub imports: Vec<Import>,
    /// How *every* import of this module spells its file name: 0 plainly, 1 with a needless
    /// percent escape of its first character, 2 with a doubled separator before it, 3 with a
    /// fragment, 4 with a query, 5 with a tripled separator. A file system takes all of these for the same file; each
    /// module keeps one spelling throughout a graph (whether two such spellings are "the same
    /// module" is not something the statement settles).
    #[serde(default)]
    pub odd: u8,
    /// The module declares, itself, the name that the first module it imports unqualified
    /// declares: an error wherever the `use` line stands.
    #[serde(default)]
    pub clash: bool,
}

/// The module whose declaration module `idx` clashes with, if it does.
fn clash_target(scn: &Scenario, idx: usize) -> Option<usize> {
    let m = &scn.modules[idx];
    if !m.clash {
        return None;
    }
    m.imports.iter().find_map(|imp| match imp.target {
        Target::Module(t) if !imp.qualified && t != idx => Some(t),
        _ => None,
    })
}

/// The file a URL denotes, as a file system sees it (escapes decoded, repeated separators
/// and dot segments gone, fragment and query ignored).
pub fn fkey(url: &str) -> String {
    let Ok(u) = url::Url::parse(url) else { return url.to_string() };
    let Ok(p) = u.to_file_path() else { return url.to_string() };
    let parts: Vec<String> = p
        .components()
        .filter_map(|c| match c {
            std::path::Component::Normal(s) => s.to_str().map(|x| x.to_string()),
            _ => None,
        })
        .collect();
    parts.join("/")
}

fn apply_odd(spelled: &str, odd: u8) -> String {
    // a scheme in front stays in front
    if let Some(rest) = spelled.strip_prefix("file:") {
        if !rest.starts_with('/') {
            return format!("file:{}", apply_odd(rest, odd));
        }
    }
    let (body, blank) = match spelled.strip_suffix(' ') {
        Some(b) => (b, " "),
        None => (spelled, ""),
    };
    let cut = body.rfind(|c| c == '/' || c == '\\').map(|i| i + 1).unwrap_or(0);
    let r = match odd {
        1 if body.len() > cut && body.as_bytes()[cut].is_ascii_alphanumeric() => format!("{}%{:02X}{}", &body[..cut], body.as_bytes()[cut], &body[cut + 1..]),
        2 => {
            if cut > 0 {
                format!("{}/{}", &body[..cut], &body[cut..])
            } else {
                format!(".//{body}")
            }
        }
        3 => format!("{body}#v1"),
        4 => format!("{body}?rev=2"),
        5 => {
            if cut > 0 {
                format!("{}//{}", &body[..cut], &body[cut..])
            } else {
                format!(".///{body}")
            }
        }
        _ => body.to_string(),
    };
    format!("{r}{blank}")
}

#[derive(Serialize, Deserialize, Clone, Debug, PartialEq)]
pub enum Fault {
    /// The k-th `load` call (0-based) fails.
    LoadNth(usize),
    /// `is_valid` says yes for this module, the following `load` of it fails (file vanished).
    Vanish(usize),
    /// The k-th `is_valid` call answers false although the file exists.
    InvalidNth(usize),
    /// `parse` of this module fails.
    ParseFail(usize),
    /// `compile` of this module fails.
    CompileFail(usize),
}

#[derive(Serialize, Deserialize, Clone, Debug, PartialEq)]
pub struct Scenario {
    pub modules: Vec<ModuleSpec>,
    pub faults: Vec<Fault>,
}

#[derive(Debug)]
pub enum SimErr {
    Compiler(Error),
    Injected(usize),
    Syntax(String),
    Budget,
}

impl From<Error> for SimErr {
    fn from(e: Error) -> Self {
        SimErr::Compiler(e)
    }
}

#[derive(Clone, Debug, PartialEq, Serialize)]
pub enum Ev {
    IsValid(String, bool),
    Load(String, bool),
    Parse(String, bool),
    Compile(String, bool),
}

#[derive(Clone, Debug, PartialEq, Serialize)]
pub enum Verdict {
    Ok(BTreeSet<String>),
    Cycle,
    Invalid(String),
    Injected(usize),
    OtherError(String),
    Budget,
    Panic(String),
}

pub fn url_of(path: &str) -> String {
    Locator::try_from(ROOT)
        .unwrap()
        .join(path)
        .unwrap()
        .url()
        .to_string()
}

fn dir_of(path: &str) -> Vec<&str> {
    let mut v: Vec<&str> = path.split('/').collect();
    v.pop();
    v
}

/// Relative spelling of `target` as seen from the directory of `from`.
pub fn spell(from: &str, target: &str, variant: u8) -> String {
    let fd = dir_of(from);
    let tparts: Vec<&str> = target.split('/').collect();
    let mut common = 0;
    while common < fd.len() && common + 1 < tparts.len() && fd[common] == tparts[common] {
        common += 1;
    }
    let mut rel = String::new();
    for _ in common..fd.len() {
        rel.push_str("../");
    }
    rel.push_str(&tparts[common..].join("/"));
    match variant {
        0 => rel,
        1 => format!("./{rel}"),
        2 => format!("zz/../{rel}"),
        3 => format!("./zz/./../{rel}"),
        // a blank in a name may be written as it is or as %20; blanks around the whole
        // string are not part of it (URL parsing strips them)
        // the module's absolute path, plain or through directories that may not exist
        9 => format!("/w/{target}"),
        10 => format!("/w/zz/../{target}"),
        11 => format!("/w/{}/../{target}", fd.first().copied().unwrap_or("nowhere")),
        // a relative reference may carry its scheme
        12 => format!("file:{rel}"),
        13 => format!("file:./{rel}"),
        4 => rel.replace(' ', "%20"),
        5 => format!("{} ", rel.replace(' ', "%20")),
        // file URLs take a backslash for a slash: the separator between a directory *name*
        // and the file name written as `\`, `\/` or `\\` (not next to a dot segment: what
        // `a//../b` means differs between URLs and file systems, and nobody writes it)
        v => {
            let Some(i) = rel.rfind('/') else { return rel };
            let dir = rel[..i].rsplit('/').next().unwrap_or("");
            if dir.is_empty() || dir == "." || dir == ".." {
                return rel;
            }
            let sep = match v {
                6 => "\\",
                7 => "\\/",
                _ => "\\\\",
            };
            format!("{}{sep}{}", &rel[..i], &rel[i + 1..])
        }
    }
}

pub fn render_module(scn: &Scenario, idx: usize) -> String {
    let m = &scn.modules[idx];
    let mut out = String::new();
    let mut props = vec!["'own num".to_string()];
    for (k, imp) in m.imports.iter().enumerate() {
        let tpath = match &imp.target {
            Target::Module(t) => scn.modules[*t].path.clone(),
            Target::Missing(p) => p.clone(),
        };
        let s = spell(&m.path, &tpath, imp.spelling);
        let s = match &imp.target {
            Target::Module(t) => apply_odd(&s, scn.modules[*t].odd),
            Target::Missing(_) => s,
        };
        if imp.qualified {
            out.push_str(&format!("use \"{s}\" as q{k};\n"));
        } else {
            out.push_str(&format!("use \"{s}\";\n"));
        }
        if let Target::Module(t) = imp.target {
            // Referencing the imported declaration makes compile order matter:
            // tagging reads the tag of the imported declaration's node.
            if imp.qualified {
                props.push(format!("'i{k} q{k}.v{t}"));
            } else if t != idx {
                props.push(format!("'i{k} v{t}"));
            }
        }
    }
    let mut decl = format!("let v{idx} = {{ {} }};\n", props.join(", "));
    if let Some(t) = clash_target(scn, idx) {
        decl.push_str(&format!("let v{t} = num;\n"));
    }
    // The grammar allows `use` anywhere at top level: in modules with an odd number of
    // imports the declaration comes first, or sits between the `use` lines.
    if m.imports.len() % 2 == 1 {
        let lines: Vec<&str> = out.split_inclusive('\n').collect();
        let k = (m.imports.len() / 2).min(lines.len());
        let mut t: String = lines[..k].concat();
        t.push_str(&decl);
        t.push_str(&lines[k..].concat());
        return t;
    }
    out.push_str(&decl);
    out
}

pub struct SimLoader<'a> {
    pub scn: &'a Scenario,
    pub store: BTreeMap<String, (usize, String)>,
    pub events: Vec<Ev>,
    pub faults_on: bool,
    pub fired: Vec<usize>,
    n_load: usize,
    n_valid: usize,
    budget: usize,
    pub calls: usize,
}

impl<'a> SimLoader<'a> {
    pub fn new(scn: &'a Scenario, faults_on: bool) -> Self {
        let mut store = BTreeMap::new();
        let mut edges = 0;
        for (i, m) in scn.modules.iter().enumerate() {
            store.insert(fkey(&url_of(&m.path)), (i, render_module(scn, i)));
            edges += m.imports.len();
        }
        SimLoader {
            scn,
            store,
            events: Vec::new(),
            faults_on,
            fired: Vec::new(),
            n_load: 0,
            n_valid: 0,
            budget: 4 * (scn.modules.len() + edges) + 8,
            calls: 0,
        }
    }

    fn tick(&mut self) -> Result<(), SimErr> {
        self.calls += 1;
        if self.calls > self.budget {
            Err(SimErr::Budget)
        } else {
            Ok(())
        }
    }

    fn fault(&mut self, pred: impl Fn(&Fault) -> bool) -> Option<usize> {
        if !self.faults_on {
            return None;
        }
        let k = self.scn.faults.iter().position(pred)?;
        if !self.fired.contains(&k) {
            self.fired.push(k);
        }
        Some(k)
    }
}

impl Loader<SimErr> for SimLoader<'_> {
    fn is_valid(&mut self, loc: &Locator) -> bool {
        self.calls += 1;
        let url = loc.url().to_string();
        let n = self.n_valid;
        self.n_valid += 1;
        let mut ans = self.store.contains_key(&fkey(&url));
        if ans && self.calls <= self.budget {
            if self.fault(|f| *f == Fault::InvalidNth(n)).is_some() {
                ans = false;
            }
        }
        if self.calls > self.budget {
            // Out of budget: make the loader stop as quickly as possible.
            ans = false;
        }
        self.events.push(Ev::IsValid(url, ans));
        ans
    }

    fn load(&mut self, loc: &Locator) -> Result<String, SimErr> {
        self.tick()?;
        let url = loc.url().to_string();
        let n = self.n_load;
        self.n_load += 1;
        let entry = self.store.get(&fkey(&url)).cloned();
        let Some((idx, text)) = entry else {
            self.events.push(Ev::Load(url.clone(), false));
            return Err(SimErr::Syntax(format!("load of unknown file {url}")));
        };
        if let Some(k) = self.fault(|f| *f == Fault::LoadNth(n) || *f == Fault::Vanish(idx)) {
            self.events.push(Ev::Load(url, false));
            return Err(SimErr::Injected(k));
        }
        self.events.push(Ev::Load(url, true));
        Ok(text)
    }

    fn parse(&mut self, loc: Locator, input: String) -> Result<Tree, SimErr> {
        self.tick()?;
        let url = loc.url().to_string();
        let idx = self.store.get(&fkey(&url)).map(|e| e.0);
        if let Some(idx) = idx {
            if let Some(k) = self.fault(|f| *f == Fault::ParseFail(idx)) {
                self.events.push(Ev::Parse(url, false));
                return Err(SimErr::Injected(k));
            }
        }
        let (tree, errs) = oal_syntax::parse(loc, input);
        if !errs.is_empty() || tree.is_none() {
            self.events.push(Ev::Parse(url, false));
            return Err(SimErr::Syntax(format!("{errs:?}")));
        }
        self.events.push(Ev::Parse(url, true));
        Ok(tree.unwrap())
    }

    fn compile(&mut self, mods: &ModuleSet, loc: &Locator) -> Result<(), SimErr> {
        self.tick()?;
        let url = loc.url().to_string();
        let idx = self.store.get(&fkey(&url)).map(|e| e.0);
        if let Some(idx) = idx {
            if let Some(k) = self.fault(|f| *f == Fault::CompileFail(idx)) {
                self.events.push(Ev::Compile(url, false));
                return Err(SimErr::Injected(k));
            }
        }
        match oal_compiler::compile::compile(mods, loc) {
            Ok(()) => {
                self.events.push(Ev::Compile(url, true));
                Ok(())
            }
            Err(e) => {
                self.events.push(Ev::Compile(url, false));
                Err(SimErr::Compiler(e))
            }
        }
    }
}

pub struct Outcome {
    pub verdict: Verdict,
    pub events: Vec<Ev>,
    pub fired: Vec<usize>,
    pub calls: usize,
}

pub fn execute(scn: &Scenario, faults_on: bool) -> Outcome {
    let mut loader = SimLoader::new(scn, faults_on);
    let main = Locator::try_from(url_of(&scn.modules[0].path).as_str()).unwrap();
    let res = std::panic::catch_unwind(std::panic::AssertUnwindSafe(|| {
        oal_compiler::module::load(&mut loader, &main)
    }));
    let verdict = match res {
        Err(p) => Verdict::Panic(crate::hashseed::panic_message(&p)),
        Ok(Ok(mods)) => Verdict::Ok(mods.locators().map(|l| l.url().to_string()).collect()),
        Ok(Err(SimErr::Injected(k))) => Verdict::Injected(k),
        Ok(Err(SimErr::Budget)) => Verdict::Budget,
        Ok(Err(SimErr::Syntax(s))) => Verdict::OtherError(format!("syntax: {s}")),
        Ok(Err(SimErr::Compiler(e))) => match &e.kind {
            Kind::CycleDetected => Verdict::Cycle,
            Kind::InvalidModule(l) => Verdict::Invalid(l.url().to_string()),
            _ => Verdict::OtherError(e.to_string()),
        },
    };
    Outcome {
        verdict,
        events: loader.events,
        fired: loader.fired,
        calls: loader.calls,
    }
}

// ---------------------------------------------------------------- reference model

pub struct Reference {
    pub reachable: BTreeSet<usize>,
    pub cycle: bool,
    pub missing: BTreeSet<String>,
    /// a reachable module declares a name that one of its unqualified imports brings too
    pub clash: bool,
}

pub fn reference(scn: &Scenario) -> Reference {
    let n = scn.modules.len();
    let mut reachable = BTreeSet::new();
    let mut stack = vec![0usize];
    let mut missing = BTreeSet::new();
    while let Some(m) = stack.pop() {
        if !reachable.insert(m) {
            continue;
        }
        for imp in &scn.modules[m].imports {
            match &imp.target {
                Target::Module(t) => stack.push(*t),
                Target::Missing(p) => {
                    missing.insert(url_of(p));
                }
            }
        }
    }
    // Cycle among reachable modules: iterative colouring DFS.
    let mut colour = vec![0u8; n];
    let mut cycle = false;
    fn dfs(scn: &Scenario, m: usize, colour: &mut Vec<u8>, cycle: &mut bool) {
        colour[m] = 1;
        for imp in &scn.modules[m].imports {
            if let Target::Module(t) = imp.target {
                if colour[t] == 1 {
                    *cycle = true;
                } else if colour[t] == 0 {
                    dfs(scn, t, colour, cycle);
                }
            }
        }
        colour[m] = 2;
    }
    dfs(scn, 0, &mut colour, &mut cycle);
    let clash = reachable.iter().any(|m| clash_target(scn, *m).is_some());
    Reference {
        reachable,
        cycle,
        missing,
        clash,
    }
}

#[derive(Clone, Debug, Serialize)]
pub struct Violation {
    pub oracle: String,
    pub detail: String,
}

fn viol(oracle: &str, detail: String) -> Option<Violation> {
    Some(Violation {
        oracle: oracle.to_string(),
        detail,
    })
}

/// Checks one execution against the reference model. `faults_on` selects the
/// (deliberately, narrowly) relaxed rules.
pub fn check(scn: &Scenario, out: &Outcome, faults_on: bool) -> Option<Violation> {
    let r = reference(scn);
    let url: Vec<String> = scn.modules.iter().map(|m| url_of(&m.path)).collect();
    let idx_of = |u: &str| url.iter().position(|x| fkey(x) == fkey(u));

    if let Verdict::Panic(msg) = &out.verdict {
        return viol("loader-panicked", msg.clone());
    }
    if out.verdict == Verdict::Budget || out.calls > 4 * (scn.modules.len() + scn.modules.iter().map(|m| m.imports.len()).sum::<usize>()) + 8 {
        return viol("termination", format!("{} loader calls exceed the budget", out.calls));
    }

    // History invariants that hold with and without faults.
    let mut loads = vec![0usize; url.len()];
    let mut parses = vec![0usize; url.len()];
    let mut compiles = vec![0usize; url.len()];
    let mut compiled_ok = vec![false; url.len()];
    for ev in &out.events {
        match ev {
            Ev::Load(u, _) => {
                if let Some(i) = idx_of(u) {
                    loads[i] += 1
                } else {
                    return viol("load-of-unknown", u.clone());
                }
            }
            Ev::Parse(u, _) => {
                if let Some(i) = idx_of(u) {
                    parses[i] += 1
                }
            }
            Ev::Compile(u, ok) => {
                let Some(i) = idx_of(u) else {
                    return viol("compile-of-unknown", u.clone());
                };
                compiles[i] += 1;
                for imp in &scn.modules[i].imports {
                    if let Target::Module(t) = imp.target {
                        if !compiled_ok[t] && t != i {
                            return viol(
                                "compile-order",
                                format!("{} compiled before its import {}", url[i], url[t]),
                            );
                        }
                    }
                }
                if *ok {
                    compiled_ok[i] = true;
                }
            }
            Ev::IsValid(..) => {}
        }
    }
    for i in 0..url.len() {
        if loads[i] > 1 || parses[i] > 1 || compiles[i] > 1 {
            return viol(
                "at-most-once",
                format!("{}: load×{} parse×{} compile×{}", url[i], loads[i], parses[i], compiles[i]),
            );
        }
        if !r.reachable.contains(&i) && (loads[i] > 0 || compiles[i] > 0) {
            return viol("unreachable-touched", url[i].clone());
        }
    }

    let fired: Vec<&Fault> = out.fired.iter().map(|k| &scn.faults[*k]).collect();
    if faults_on && !fired.is_empty() {
        // Under a fired fault the call must fail, and with the injected cause. A failed
        // load/parse/compile reaches `module::load` as an `Err` value: anything but
        // returning that very error means it was swallowed or replaced.
        let hard = fired.iter().any(|f| !matches!(f, Fault::InvalidNth(_)));
        match &out.verdict {
            Verdict::Ok(_) => return viol("fault-swallowed", format!("Ok despite {fired:?}")),
            Verdict::Injected(k) => {
                if !out.fired.contains(k) {
                    return viol("fault-misattributed", format!("Injected({k}) never fired"));
                }
            }
            _ if hard => {
                return viol("fault-masked", format!("{:?} while {fired:?} fired", out.verdict));
            }
            Verdict::Invalid(u) => {
                // An is_valid flap: the import "cannot be found" and is reported as such.
                let flapped = out.events.iter().any(|e| matches!(e, Ev::IsValid(x, false) if x == u));
                if !flapped {
                    return viol("invalid-without-cause", u.clone());
                }
            }
            Verdict::Cycle => {
                // The statement does not rank a cycle against an unfindable import.
                if !r.cycle {
                    return viol("spurious-cycle", "no cycle reachable".into());
                }
            }
            Verdict::OtherError(e) => return viol("unexpected-error", e.clone()),
            _ => {}
        }
        return None;
    }

    // Fault-free rules (also apply when the plan's faults never fired).
    let expect_ok = !r.cycle && r.missing.is_empty();
    match &out.verdict {
        Verdict::OtherError(_) if expect_ok && r.clash => {
            // the compile error of the module that declares an imported name again
        }
        Verdict::Ok(_) if expect_ok && r.clash => {
            return viol("accepted-bad-graph", "Ok although a module declares a name that an unqualified import brings as well".into());
        }
        Verdict::Ok(set) => {
            if !expect_ok {
                return viol(
                    "accepted-bad-graph",
                    format!("Ok although cycle={} missing={:?}", r.cycle, r.missing),
                );
            }
            let want: BTreeSet<String> = r.reachable.iter().map(|i| fkey(&url[*i])).collect();
            let got: BTreeSet<String> = set.iter().map(|u| fkey(u)).collect();
            if got != want || got.len() != set.len() {
                return viol("module-set", format!("got {set:?} want {want:?}"));
            }
            for i in &r.reachable {
                if loads[*i] != 1 || parses[*i] != 1 || compiles[*i] != 1 {
                    return viol(
                        "exactly-once",
                        format!("{}: load×{} parse×{} compile×{}", url[*i], loads[*i], parses[*i], compiles[*i]),
                    );
                }
            }
        }
        Verdict::Cycle => {
            if !r.cycle {
                return viol("spurious-cycle", "no cycle reachable".into());
            }
        }
        Verdict::Invalid(u) => {
            if !r.missing.iter().any(|m| fkey(m) == fkey(u)) {
                return viol("spurious-invalid", format!("{u} is not a reachable missing import"));
            }
        }
        Verdict::Injected(k) => return viol("fault-misattributed", format!("Injected({k}) with faults off")),
        Verdict::OtherError(e) => return viol("unexpected-error", e.clone()),
        Verdict::Budget | Verdict::Panic(_) => unreachable!(),
    }
    None
}

// ---------------------------------------------------------------- generation

/// Number of scenarios in the exhaustive prelude (all graphs with N ≤ 3 modules,
/// self loops, 2-cycles and one optional missing import per module included).
pub fn sweep_count() -> u64 {
    (1..=3u32).map(|n| 1u64 << (n * n + n)).sum()
}

pub fn sweep_scenario(mut i: u64) -> Scenario {
    let mut n = 1u32;
    loop {
        let c = 1u64 << (n * n + n);
        if i < c {
            break;
        }
        i -= c;
        n += 1;
    }
    let n = n as usize;
    let mut modules = Vec::new();
    for a in 0..n {
        let mut imports = Vec::new();
        for b in 0..n {
            if (i >> (a * n + b)) & 1 == 1 {
                imports.push(Import {
                    target: Target::Module(b),
                    spelling: 0,
                    qualified: true,
                });
            }
        }
        if (i >> (n * n + a)) & 1 == 1 {
            imports.push(Import {
                target: Target::Missing(format!("x{a}.oal")),
                spelling: 0,
                qualified: true,
            });
        }
        modules.push(ModuleSpec {
            path: format!("m{a}.oal"),
            imports,
            odd: 0,
            clash: false,
        });
    }
    Scenario {
        modules,
        faults: vec![],
    }
}

pub fn gen_scenario(rng: &mut Rng) -> Scenario {
    // now and then a project of dozens of modules (chain, star or sparse dag; sometimes with a back edge)
    let big = rng.chance(1, 40);
    let n = if big { rng.range(30, 70) } else { rng.range(1, 6) };
    let shape = if big { 5 } else { rng.weighted(&[4, 2, 2, 2, 1]) }; // dag, chain, diamond-ish dense dag, with back edge, random
    let mut modules: Vec<ModuleSpec> = (0..n)
        .map(|i| {
            let path = match rng.below(9) {
                0..=2 => format!("d{}/m{i}.oal", rng.below(2)),
                3 => format!("m {i}.oal"),
                4 => format!("d 1/m{i}.oal"),
                // a location far longer than any file-name or path limit one might assume
                5 if rng.chance(1, 3) => format!("{}/{}/m{i}.oal", "long-directory-name-".repeat(9), "日本語のディレクトリ".repeat(4)),
                _ => format!("m{i}.oal"),
            };
            ModuleSpec {
                path,
                imports: vec![],
                odd: 0,
                clash: false,
            }
        })
        .collect();
    let add = |modules: &mut Vec<ModuleSpec>, rng: &mut Rng, a: usize, b: usize| {
        modules[a].imports.push(Import {
            target: Target::Module(b),
            spelling: rng.below(14) as u8,
            qualified: rng.chance(3, 4),
        });
    };
    match shape {
        0 => {
            for a in 0..n {
                for b in a + 1..n {
                    if rng.chance(2, 5) {
                        add(&mut modules, rng, a, b);
                    }
                }
            }
        }
        1 => {
            for a in 0..n.saturating_sub(1) {
                add(&mut modules, rng, a, a + 1);
            }
        }
        2 => {
            for a in 0..n {
                for b in a + 1..n {
                    if rng.chance(4, 5) {
                        add(&mut modules, rng, a, b);
                    }
                }
            }
        }
        3 => {
            for a in 0..n {
                for b in a + 1..n {
                    if rng.chance(1, 2) {
                        add(&mut modules, rng, a, b);
                    }
                }
            }
            let a = rng.below(n);
            let b = rng.below(a + 1);
            add(&mut modules, rng, a, b); // back edge or self loop
        }
        5 => {
            match rng.below(5) {
                3 => {
                    // the first module imports the heads of several chains
                    let k = rng.range(2, 4);
                    for c in 0..k {
                        let mut prev = 0;
                        let mut i = 1 + c;
                        while i < n {
                            add(&mut modules, rng, prev, i);
                            prev = i;
                            i += k;
                        }
                    }
                }
                4 => {
                    // a binary tree
                    for a in 0..n {
                        for b in [2 * a + 1, 2 * a + 2] {
                            if b < n {
                                add(&mut modules, rng, a, b);
                            }
                        }
                    }
                }
                0 => {
                    for a in 0..n - 1 {
                        add(&mut modules, rng, a, a + 1);
                    }
                }
                1 => {
                    for b in 1..n {
                        add(&mut modules, rng, 0, b);
                    }
                }
                _ => {
                    for a in 0..n - 1 {
                        add(&mut modules, rng, a, a + 1);
                        if a + 2 < n && rng.chance(1, 2) {
                            let b = a + 2 + rng.below(n - a - 2);
                            add(&mut modules, rng, a, b);
                        }
                    }
                }
            }
            if rng.chance(1, 5) {
                let a = rng.below(n);
                let b = rng.below(a + 1);
                add(&mut modules, rng, a, b);
            }
        }
        _ => {
            let e = rng.below(n * 2 + 1);
            for _ in 0..e {
                let a = rng.below(n);
                let b = rng.below(n);
                add(&mut modules, rng, a, b);
            }
        }
    }
    // duplicate use lines (same target, other spelling/qualifier)
    if rng.chance(1, 4) {
        let a = rng.below(n);
        if let Some(imp) = modules[a].imports.first().cloned() {
            let mut d = imp;
            d.spelling = rng.below(14) as u8;
            d.qualified = rng.chance(1, 2);
            modules[a].imports.push(d);
        }
    }
    // missing targets
    if rng.chance(1, 5) {
        let a = rng.below(n);
        let sp = rng.below(14) as u8;
        modules[a].imports.push(Import {
            target: Target::Missing(format!("x{}.oal", rng.below(3))),
            spelling: sp,
            qualified: rng.chance(1, 2),
        });
    }
    for m in modules.iter_mut() {
        rng.shuffle(&mut m.imports);
    }
    if rng.chance(1, 4) {
        for m in modules.iter_mut().skip(1) {
            if rng.chance(1, 2) {
                m.odd = rng.range(1, 5) as u8;
            }
        }
    }
    if rng.chance(1, 12) {
        let a = rng.below(n);
        modules[a].clash = true;
    }
    Scenario {
        modules,
        faults: vec![],
    }
}

/// A metamorphic variant: same graph, `use` lines permuted, other spellings.
pub fn variant(scn: &Scenario, rng: &mut Rng) -> Scenario {
    let mut v = scn.clone();
    for m in v.modules.iter_mut() {
        rng.shuffle(&mut m.imports);
        for imp in m.imports.iter_mut() {
            imp.spelling = rng.below(14) as u8;
        }
    }
    v
}

pub fn gen_faults(scn: &Scenario, rng: &mut Rng) -> Vec<Fault> {
    if scn.modules.iter().any(|m| m.clash) {
        return Vec::new(); // an erroneous program: what a fault on top of it must yield is not settled
    }
    let n = scn.modules.len();
    let e: usize = scn.modules.iter().map(|m| m.imports.len()).sum();
    let k = rng.range(1, 2);
    let mut fs = Vec::new();
    for _ in 0..k {
        fs.push(match rng.below(5) {
            0 => Fault::LoadNth(rng.below(n)),
            1 => Fault::Vanish(rng.below(n)),
            2 => Fault::InvalidNth(rng.below(e.max(1))),
            3 => Fault::ParseFail(rng.below(n)),
            _ => Fault::CompileFail(rng.below(n)),
        });
    }
    fs
}

// ---------------------------------------------------------------- one run

fn fault_name(f: &Fault) -> &'static str {
    match f {
        Fault::LoadNth(_) => "load_error",
        Fault::Vanish(_) => "file_vanished_after_is_valid",
        Fault::InvalidNth(_) => "is_valid_flap",
        Fault::ParseFail(_) => "parse_error",
        Fault::CompileFail(_) => "compile_error",
    }
}

/// Executes scenario `scn` fault-free and (if it has a plan) under faults followed
/// by a recovery load. Returns the first violation.
pub fn run_scenario(scn: &Scenario) -> (Option<(bool, Violation)>, Vec<Outcome>) {
    let mut outs = Vec::new();
    let o = execute(scn, false);
    let v = check(scn, &o, false);
    outs.push(o);
    if let Some(v) = v {
        return (Some((false, v)), outs);
    }
    if !scn.faults.is_empty() {
        let o = execute(scn, true);
        let v = check(scn, &o, true);
        outs.push(o);
        if let Some(v) = v {
            return (Some((true, v)), outs);
        }
        // Once faults stop, the same store loads as if nothing had happened.
        let o2 = execute(scn, false);
        if o2.verdict != outs[0].verdict {
            let d = format!("after faults {:?}, before {:?}", o2.verdict, outs[0].verdict);
            outs.push(o2);
            return (Some((true, Violation { oracle: "no-recovery".into(), detail: d })), outs);
        }
    }
    (None, outs)
}

/// A chain of `n` modules, each importing the next, loaded on a thread with the stack a Rust
/// thread gets by default (2 MiB): the loader must come back with all of them. (A loader that
/// recurses once per module does not come back at all: the process dies, which the driver
/// reports.)
pub fn deep_chain(n: usize) -> Option<Violation> {
    let modules: Vec<ModuleSpec> = (0..n)
        .map(|i| ModuleSpec {
            path: format!("m{i}.oal"),
            imports: if i + 1 < n { vec![Import { target: Target::Module(i + 1), spelling: 0, qualified: true }] } else { vec![] },
            odd: 0,
            clash: false,
        })
        .collect();
    let scn = Scenario { modules, faults: vec![] };
    let h = std::thread::Builder::new().stack_size(2 << 20).spawn(move || {
        let o = execute(&scn, false);
        match o.verdict {
            Verdict::Ok(set) if set.len() == n => None,
            Verdict::Ok(set) => Some(format!("Ok with {} of {n} modules", set.len())),
            v => Some(format!("{:?}", v).chars().take(200).collect()),
        }
    });
    match h.expect("spawn").join() {
        Ok(None) => None,
        Ok(Some(d)) => viol("deep-chain", d),
        Err(_) => viol("deep-chain", "the loading thread panicked".into()),
    }
}

pub fn run(seed: u64, run: u64) -> Report {
    let sweep = sweep_count();
    let mut probes: Vec<&'static str> = Vec::new();
    let mut fault_kinds: Vec<&'static str> = Vec::new();
    let mut rng = Rng::stream(seed, "C10", run, "workload");
    let mut frng = Rng::stream(seed, "C10", run, "faults");
    let base = if run < sweep {
        sweep_scenario(run)
    } else {
        gen_scenario(&mut rng)
    };
    let r = reference(&base);
    if r.cycle {
        probes.push("cycle");
    }
    if !r.missing.is_empty() {
        probes.push("missing");
    }
    if r.cycle && !r.missing.is_empty() {
        probes.push("cycle_and_missing");
    }
    if base.modules.iter().enumerate().any(|(i, m)| m.imports.iter().any(|x| x.target == Target::Module(i))) {
        probes.push("self_import");
    }
    {
        // diamond: some module reachable along two different import edges
        let mut indeg = vec![0; base.modules.len()];
        for (i, m) in base.modules.iter().enumerate() {
            if !r.reachable.contains(&i) {
                continue;
            }
            let mut seen = BTreeSet::new();
            for imp in &m.imports {
                if let Target::Module(t) = imp.target {
                    if seen.insert(t) {
                        indeg[t] += 1;
                    } else {
                        probes.push("duplicate_use");
                    }
                }
            }
        }
        if indeg.iter().any(|d| *d >= 2) {
            probes.push("diamond");
        }
    }
    if base.modules.iter().any(|m| m.imports.iter().any(|x| x.spelling != 0)) {
        probes.push("alias_spelling");
    }
    if base.modules.iter().any(|m| m.path.contains('/')) {
        probes.push("subdirectory");
    }
    if reference(&base).clash {
        probes.push("declaration_clashes_with_unqualified_import");
    }
    probes.sort();
    probes.dedup();

    let mut loads = 0u64;
    let mut log = String::new();
    let mut violation = None;
    let mut variants = vec![base.clone()];
    if run >= sweep {
        variants.push(variant(&base, &mut rng));
    }
    // fault plans: one on the base, one on the variant
    let mut with_faults: Vec<Scenario> = Vec::new();
    for v in &variants {
        let mut s = v.clone();
        s.faults = gen_faults(&s, &mut frng);
        with_faults.push(s);
    }
    let mut verdict0: Option<Verdict> = None;
    let mut interleaving_src = String::new();
    for s in variants.iter().chain(with_faults.iter()) {
        let (v, outs) = run_scenario(s);
        for o in &outs {
            loads += 1;
            log.push_str(&format!("{:?}|{:?}|{:?};", o.verdict, o.events, o.fired));
            interleaving_src.push_str(&format!("{:?};", o.events.iter().map(|e| match e {
                Ev::IsValid(_, a) => if *a { "v" } else { "V" },
                Ev::Load(_, a) => if *a { "l" } else { "L" },
                Ev::Parse(_, a) => if *a { "p" } else { "P" },
                Ev::Compile(_, a) => if *a { "c" } else { "C" },
            }).collect::<String>()));
            for k in &o.fired {
                fault_kinds.push(fault_name(&s.faults[*k]));
                if matches!(s.faults[*k], Fault::Vanish(_)) {
                    probes.push("toctou_vanish");
                }
                if matches!(s.faults[*k], Fault::CompileFail(_)) && o.events.iter().filter(|e| matches!(e, Ev::Compile(_, true))).count() > 0 {
                    probes.push("compile_fault_mid_topo");
                }
            }
        }
        if let Some((faulty, v)) = v {
            violation = Some((s.clone(), faulty, v));
            break;
        }
        // Metamorphic: the fault-free verdict of the variant agrees with the base
        // wherever the statement fixes it (Ok-set; cycle-only; missing-only).
        if s.faults.is_empty() {
            let v0 = outs[0].verdict.clone();
            match &verdict0 {
                None => verdict0 = Some(v0),
                Some(b) => {
                    let ambiguous = r.cycle && !r.missing.is_empty();
                    let same = match (b, &v0) {
                        (Verdict::Invalid(_), Verdict::Invalid(_)) => true,
                        (Verdict::OtherError(_), Verdict::OtherError(_)) => true,
                        (x, y) => x == y,
                    };
                    if !ambiguous && !same {
                        violation = Some((
                            s.clone(),
                            false,
                            Violation {
                                oracle: "spelling-or-order-dependent".into(),
                                detail: format!("base {b:?} variant {v0:?}"),
                            },
                        ));
                        break;
                    }
                }
            }
        }
    }
    let sample = serde_json::json!({
        "run": run,
        "modules": base.modules.iter().enumerate().map(|(i, _)| render_module(&base, i)).collect::<Vec<_>>(),
        "paths": base.modules.iter().map(|m| m.path.clone()).collect::<Vec<_>>(),
        "fault_plan": with_faults[0].faults,
        "fault_free_verdict": format!("{:?}", verdict0),
    });
    let mut violation = violation.map(|(s, faulty, v)| found(&s, faulty, &v));
    if violation.is_none() && run >= sweep && (run - sweep) % 100_000 == 0 {
        // once per hundred thousand runs: a very deep acyclic chain
        probes.push("chain_of_40000_modules_on_a_2_mib_stack");
        if let Some(v) = deep_chain(40_000) {
            violation = Some(Found {
                signature: format!("C10 {}", v.oracle),
                oracle: v.oracle.clone(),
                detail: v.detail.clone(),
                scenario: serde_json::json!({ "deep_chain": 40_000 }),
            });
        }
    }
    Report {
        violation,
        digest: digest64(log.as_bytes()),
        interleaving: digest64(interleaving_src.as_bytes()),
        states: vec![],
        nontrivial: r.reachable.len() >= 2,
        evals: loads,
        oracle_checks: loads,
        sim_time_ms: 0,
        probes: probes.iter().map(|s| s.to_string()).collect(),
        fault_kinds: fault_kinds.iter().map(|s| s.to_string()).collect(),
        sample,
        counters: vec![],
    }
}

fn found(s: &Scenario, faulty: bool, v: &Violation) -> Found {
    let min = minimise(s, &v.oracle);
    // Re-derive the detail on the minimised scenario.
    let detail = match run_scenario(&min).0 {
        Some((_, v2)) => v2.detail,
        None => v.detail.clone(),
    };
    Found {
        signature: format!("C10 {}{}", v.oracle, if faulty { " under-faults" } else { "" }),
        oracle: v.oracle.clone(),
        detail,
        scenario: serde_json::json!({
            "scenario": min,
            "rendered": min.modules.iter().enumerate().map(|(i, m)| (m.path.clone(), render_module(&min, i))).collect::<BTreeMap<_, _>>(),
        }),
    }
}

/// Replays a recorded scenario; returns the violation it reproduces, if any.
pub fn replay(doc: &serde_json::Value) -> Result<Option<Found>, String> {
    if let Some(n) = doc["deep_chain"].as_u64() {
        return Ok(deep_chain(n as usize).map(|v| Found {
            signature: format!("C10 {}", v.oracle),
            oracle: v.oracle,
            detail: v.detail,
            scenario: doc.clone(),
        }));
    }
    let scn: Scenario = serde_json::from_value(doc["scenario"].clone()).map_err(|e| e.to_string())?;
    Ok(run_scenario(&scn).0.map(|(faulty, v)| Found {
        signature: format!("C10 {}{}", v.oracle, if faulty { " under-faults" } else { "" }),
        oracle: v.oracle,
        detail: v.detail,
        scenario: doc.clone(),
    }))
}

// ---------------------------------------------------------------- minimisation

fn still_fails(scn: &Scenario, oracle: &str) -> bool {
    if scn.modules.is_empty() {
        return false;
    }
    matches!(run_scenario(scn).0, Some((_, v)) if v.oracle == oracle)
}

fn remove_module(scn: &Scenario, k: usize) -> Option<Scenario> {
    if k == 0 || scn.modules.len() <= 1 {
        return None;
    }
    let mut s = scn.clone();
    s.modules.remove(k);
    for m in s.modules.iter_mut() {
        m.imports.retain(|i| i.target != Target::Module(k));
        for i in m.imports.iter_mut() {
            if let Target::Module(t) = &mut i.target {
                if *t > k {
                    *t -= 1;
                }
            }
        }
    }
    let fix = |x: usize| if x > k { Some(x - 1) } else if x == k { None } else { Some(x) };
    s.faults = s
        .faults
        .iter()
        .filter_map(|f| match f {
            Fault::Vanish(x) => fix(*x).map(Fault::Vanish),
            Fault::ParseFail(x) => fix(*x).map(Fault::ParseFail),
            Fault::CompileFail(x) => fix(*x).map(Fault::CompileFail),
            o => Some(o.clone()),
        })
        .collect();
    Some(s)
}

pub fn minimise(scn: &Scenario, oracle: &str) -> Scenario {
    let mut cur = scn.clone();
    let mut progress = true;
    while progress {
        progress = false;
        for k in (1..cur.modules.len()).rev() {
            if let Some(c) = remove_module(&cur, k) {
                if still_fails(&c, oracle) {
                    cur = c;
                    progress = true;
                }
            }
        }
        for m in 0..cur.modules.len() {
            let mut j = 0;
            while j < cur.modules[m].imports.len() {
                let mut c = cur.clone();
                c.modules[m].imports.remove(j);
                if still_fails(&c, oracle) {
                    cur = c;
                    progress = true;
                } else {
                    j += 1;
                }
            }
        }
        let mut j = 0;
        while j < cur.faults.len() {
            let mut c = cur.clone();
            c.faults.remove(j);
            if still_fails(&c, oracle) {
                cur = c;
                progress = true;
            } else {
                j += 1;
            }
        }
        // simplify spellings, paths and qualifiers
        for m in 0..cur.modules.len() {
            if cur.modules[m].path.contains('/') {
                let mut c = cur.clone();
                c.modules[m].path = format!("m{m}.oal");
                if c.modules.iter().filter(|x| x.path == c.modules[m].path).count() == 1 && still_fails(&c, oracle) {
                    cur = c;
                    progress = true;
                }
            }
            for j in 0..cur.modules[m].imports.len() {
                if cur.modules[m].imports[j].spelling != 0 {
                    let mut c = cur.clone();
                    c.modules[m].imports[j].spelling = 0;
                    if still_fails(&c, oracle) {
                        cur = c;
                        progress = true;
                    }
                }
            }
        }
    }
    cur
}
