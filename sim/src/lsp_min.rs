//! Minimisation of LSP histories: a candidate is kept only if the *same oracle
//! signature* still fires. Candidates are always executable: the executor skips
//! events that are not protocol-legal in the candidate (e.g. a change to a
//! document whose open was dropped).

use crate::lsp_sim::{Chg, Ev, Scenario};
use crate::position;
use std::collections::BTreeMap;

/// Client-side text of every open document after each event (no server involved).
fn buffers_after(scn: &Scenario) -> Vec<BTreeMap<String, String>> {
    let mut open: BTreeMap<String, String> = BTreeMap::new();
    let mut out = Vec::new();
    for ev in &scn.events {
        match ev {
            Ev::Open { path, text } => {
                open.entry(path.clone()).or_insert_with(|| text.clone());
            }
            Ev::Change { path, changes } => {
                if let Some(t) = open.get_mut(path) {
                    for c in changes {
                        position::apply_change(t, c.range, &c.text);
                    }
                }
            }
            Ev::Close { path } => {
                open.remove(path);
            }
            _ => {}
        }
        out.push(open.clone());
    }
    out
}

fn drop_lines(text: &str, test: &mut dyn FnMut(&str) -> bool) -> String {
    let mut lines: Vec<&str> = text.split_inclusive('\n').collect();
    let mut chunk = (lines.len() / 2).max(1);
    loop {
        let mut i = 0;
        while i < lines.len() {
            let end = (i + chunk).min(lines.len());
            let cand: String = lines[..i].iter().chain(lines[end..].iter()).copied().collect();
            if test(&cand) {
                lines.drain(i..end);
            } else {
                i += chunk;
            }
        }
        if chunk == 1 {
            break;
        }
        chunk /= 2;
    }
    lines.concat()
}

pub fn minimise(scn: &Scenario, at: usize, fails: &dyn Fn(&Scenario) -> bool, budget: usize) -> Scenario {
    let mut left = budget;
    let mut cur = scn.clone();
    let mut try_it = |c: &Scenario, left: &mut usize| -> bool {
        if *left == 0 {
            return false;
        }
        *left -= 1;
        fails(c)
    };
    // 1. nothing after the detecting event matters
    if at + 1 < cur.events.len() {
        let mut c = cur.clone();
        c.events.truncate(at + 1);
        if try_it(&c, &mut left) {
            cur = c;
        }
    }
    // 2. remove chunks of events
    let mut chunk = (cur.events.len() / 2).max(1);
    loop {
        let mut i = 0;
        while i < cur.events.len() {
            let end = (i + chunk).min(cur.events.len());
            let mut c = cur.clone();
            c.events.drain(i..end);
            if !c.events.is_empty() && try_it(&c, &mut left) {
                cur = c;
            } else {
                i += chunk;
            }
        }
        if chunk == 1 {
            break;
        }
        chunk /= 2;
    }
    // 3. incremental changes → one full-text change each
    let bufs = buffers_after(&cur);
    for i in 0..cur.events.len() {
        if let Ev::Change { path, changes } = &cur.events[i] {
            if changes.len() == 1 && changes[0].range.is_none() {
                continue;
            }
            if let Some(t) = bufs[i].get(path) {
                let mut c = cur.clone();
                c.events[i] = Ev::Change {
                    path: path.clone(),
                    changes: vec![Chg {
                        range: None,
                        text: t.clone(),
                    }],
                };
                if try_it(&c, &mut left) {
                    cur = c;
                }
            }
        }
    }
    // 4. merge "open T; change to T'" into "open T'" where possible
    let mut i = 0;
    while i + 1 < cur.events.len() {
        if let (Ev::Open { path, .. }, Ev::Change { path: p2, changes }) = (&cur.events[i], &cur.events[i + 1]) {
            if path == p2 && changes.len() == 1 && changes[0].range.is_none() {
                let mut c = cur.clone();
                c.events[i] = Ev::Open {
                    path: path.clone(),
                    text: changes[0].text.clone(),
                };
                c.events.remove(i + 1);
                if try_it(&c, &mut left) {
                    cur = c;
                    continue;
                }
            }
        }
        i += 1;
    }
    // 5. drop files, then lines of the texts that remain
    for p in cur.disk.keys().cloned().collect::<Vec<_>>() {
        let mut c = cur.clone();
        c.disk.remove(&p);
        if try_it(&c, &mut left) {
            cur = c;
        }
    }
    for p in cur.disk.keys().cloned().collect::<Vec<_>>() {
        let base = cur.clone();
        let t = base.disk[&p].clone();
        let new = drop_lines(&t, &mut |cand| {
            let mut c = base.clone();
            c.disk.insert(p.clone(), cand.to_string());
            try_it(&c, &mut left)
        });
        cur.disk.insert(p, new);
    }
    for i in 0..cur.events.len() {
        let base = cur.clone();
        match &base.events[i] {
            Ev::Open { path, text } => {
                let new = drop_lines(text, &mut |cand| {
                    let mut c = base.clone();
                    c.events[i] = Ev::Open {
                        path: path.clone(),
                        text: cand.to_string(),
                    };
                    try_it(&c, &mut left)
                });
                cur.events[i] = Ev::Open { path: path.clone(), text: new };
            }
            Ev::Change { path, changes } if changes.len() == 1 && changes[0].range.is_none() => {
                let new = drop_lines(&changes[0].text, &mut |cand| {
                    let mut c = base.clone();
                    c.events[i] = Ev::Change {
                        path: path.clone(),
                        changes: vec![Chg {
                            range: None,
                            text: cand.to_string(),
                        }],
                    };
                    try_it(&c, &mut left)
                });
                cur.events[i] = Ev::Change {
                    path: path.clone(),
                    changes: vec![Chg { range: None, text: new }],
                };
            }
            _ => {}
        }
    }
    // 6. a last pass over single events (texts shrank; more may be removable)
    let mut i = 0;
    while i < cur.events.len() {
        let mut c = cur.clone();
        c.events.remove(i);
        if !c.events.is_empty() && try_it(&c, &mut left) {
            cur = c;
        } else {
            i += 1;
        }
    }
    if cur.hash_seed != 0 {
        let mut c = cur.clone();
        c.hash_seed = 0;
        if try_it(&c, &mut left) {
            cur = c;
        }
    }
    cur
}
