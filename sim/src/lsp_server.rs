//! Seam S1: the shipped `oal-lsp.rs` is compiled *as is* into this module; its
//! `select!` resolves to the simulator's (crate `cbshim`, imported under the name
//! `crossbeam-channel`). One `step` = one decision at the server's only
//! blocking point: deliver a message, let the 1000 ms idle timer fire, or hang up.

#[allow(dead_code, unused_imports, clippy::all)]
mod shipped {
    include!(concat!(env!("OAL_REPO"), "/oal-client/src/bin/oal-lsp.rs"));

    /// The only addition: a public door to the (private) shipped loop.
    pub fn sim_main_loop(state: &mut GlobalState) -> anyhow::Result<()> {
        main_loop(state)
    }
}

use crossbeam_channel::{sim_set_hook, SimChoice, SimStop};
use lsp_server::{Connection, Message};
use oal_client::lsp::state::GlobalState;
use oal_client::lsp::{Folder, Workspace};
use std::collections::HashMap;
use std::panic::{catch_unwind, AssertUnwindSafe};
use url::Url;

pub enum Step {
    Deliver(Message),
    Timeout,
    Disconnect,
}

pub struct Server {
    pub state: GlobalState,
    pub client: Connection,
    pub death: Option<String>,
    pub steps: u64,
}

impl Server {
    /// Mirrors the construction in the shipped `main()` after `initialize`.
    pub fn new(folder_uris: &[Url]) -> Server {
        let (server_conn, client_conn) = Connection::memory();
        let mut folders = HashMap::new();
        for uri in folder_uris {
            let f = lsp_types::WorkspaceFolder {
                uri: uri.clone(),
                name: "ws".into(),
            };
            if let Ok(folder) = Folder::new(f) {
                folders.insert(uri.clone(), folder);
            }
        }
        Server {
            state: GlobalState {
                conn: server_conn,
                workspace: Workspace::default(),
                folders,
                is_stale: true,
            },
            client: client_conn,
            death: None,
            steps: 0,
        }
    }

    pub fn alive(&self) -> bool {
        self.death.is_none()
    }

    /// Runs the real `main_loop` for exactly one decision and pauses it at the next
    /// `select!`. Returns everything the server sent meanwhile.
    pub fn step(&mut self, step: Step) -> Vec<Message> {
        if self.death.is_some() {
            return Vec::new();
        }
        self.steps += 1;
        let mut first = Some(match step {
            Step::Deliver(m) => {
                self.client.sender.send(m).expect("memory channel");
                SimChoice::Recv
            }
            Step::Timeout => SimChoice::Timeout,
            Step::Disconnect => SimChoice::Disconnected,
        });
        sim_set_hook(Some(Box::new(move |_timeout| first.take().unwrap_or(SimChoice::Stop))));
        let state = &mut self.state;
        let r = catch_unwind(AssertUnwindSafe(|| shipped::sim_main_loop(state)));
        sim_set_hook(None);
        match r {
            Err(p) if p.is::<SimStop>() => {}
            Err(p) => self.death = Some(format!("panic: {}", crate::hashseed::panic_message(&p))),
            Ok(Ok(())) => self.death = Some("main_loop returned Ok".into()),
            Ok(Err(e)) => self.death = Some(format!("main_loop returned Err: {e:#}")),
        }
        self.client.receiver.try_iter().collect()
    }
}
