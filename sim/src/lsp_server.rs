//! Seam S1: the shipped `oal-lsp.rs` is compiled *as is* into this module; its
//! `select!` resolves to the simulator's (crate `cbshim`, imported under the name
//! `crossbeam-channel`). One `step` = one decision at the server's only
//! blocking point: deliver a message, let the 1000 ms idle timer fire, or hang up.
//!
//! The shipped `main_loop` runs on a thread of its own, once, for the whole life of the
//! simulated server — whatever it keeps in local variables (counters, backlogs) lives as
//! long as it does in the real process. The thread is parked inside `select!` whenever the
//! simulator runs and the simulator waits whenever the server runs: exactly one of the two
//! executes at any time, and who does is decided by the simulator alone.

#[allow(dead_code, unused_imports, clippy::all)]
mod shipped {
    include!(concat!(env!("OAL_REPO"), "/oal-client/src/bin/oal-lsp.rs"));

    /// The only addition: a public door to the (private) shipped loop.
    pub fn sim_main_loop(state: &mut GlobalState) -> anyhow::Result<()> {
        main_loop(state)
    }
}

use crossbeam_channel::{sim_set_hook, SimChoice, SimStop};
use lsp_server::{Connection, Message};
use oal_client::lsp::state::GlobalState;
use oal_client::lsp::{Folder, Workspace};
use std::collections::HashMap;
use std::panic::{catch_unwind, AssertUnwindSafe};
use std::sync::mpsc;
use url::Url;

pub enum Step {
    Deliver(Message),
    Timeout,
    Disconnect,
    /// nothing new happens: the server works off what is already queued
    Flush,
}

/// What the server thread tells the simulator.
enum Evt {
    /// parked at `select!`; the state may be looked at until the next choice is sent
    AtSelect(*const GlobalState),
    /// `main_loop` is over (returned or panicked)
    Ended(String),
}
// The pointer is only dereferenced by the simulator while the server thread is parked
// inside the hook that sent it (see `Server::with_state`).
unsafe impl Send for Evt {}

pub struct Server {
    pub client: Connection,
    pub death: Option<String>,
    pub steps: u64,
    choice_tx: mpsc::Sender<SimChoice>,
    evt_rx: mpsc::Receiver<Evt>,
    /// valid while the server is parked (`death` is `None`)
    state: *const GlobalState,
    inbox: crossbeam_channel::Receiver<Message>,
    thread: Option<std::thread::JoinHandle<()>>,
}

impl Server {
    /// Mirrors the construction in the shipped `main()` after `initialize`, then starts the
    /// shipped loop and waits until it reaches its `select!` for the first time.
    pub fn new(folder_uris: &[Url]) -> Server {
        let (server_conn, client_conn) = Connection::memory();
        let inbox = server_conn.receiver.clone();
        let (choice_tx, choice_rx) = mpsc::channel::<SimChoice>();
        let (evt_tx, evt_rx) = mpsc::channel::<Evt>();
        let uris: Vec<Url> = folder_uris.to_vec();
        let seed = crate::hashseed::next_child_seed();
        let thread = std::thread::Builder::new()
            .stack_size(256 << 20)
            .spawn(move || {
                crate::hashseed::set_thread_seed(seed);
                let mut folders = HashMap::new();
                for uri in uris {
                    let f = lsp_types::WorkspaceFolder {
                        uri: uri.clone(),
                        name: "ws".into(),
                    };
                    if let Ok(folder) = Folder::new(f) {
                        folders.insert(uri.clone(), folder);
                    }
                }
                let mut state = GlobalState {
                    conn: server_conn,
                    workspace: Workspace::default(),
                    folders,
                    is_stale: true,
                };
                let tx = evt_tx.clone();
                sim_set_hook(Some(Box::new(move |_timeout, st| {
                    let ptr = st.and_then(|s| s.downcast_ref::<GlobalState>()).map(|s| s as *const GlobalState).unwrap_or(std::ptr::null());
                    if tx.send(Evt::AtSelect(ptr)).is_err() {
                        return SimChoice::Stop;
                    }
                    // parked: the simulator runs now
                    choice_rx.recv().unwrap_or(SimChoice::Stop)
                })));
                let r = catch_unwind(AssertUnwindSafe(|| shipped::sim_main_loop(&mut state)));
                sim_set_hook(None);
                let end = match r {
                    Err(p) if p.is::<SimStop>() => "stopped by the simulator".to_string(),
                    Err(p) => format!("panic: {}", crate::hashseed::panic_message(&p)),
                    Ok(Ok(())) => "main_loop returned Ok".to_string(),
                    Ok(Err(e)) => format!("main_loop returned Err: {e:#}"),
                };
                let _ = evt_tx.send(Evt::Ended(end));
            })
            .expect("spawn server thread");
        let mut s = Server {
            client: client_conn,
            death: None,
            steps: 0,
            choice_tx,
            evt_rx,
            state: std::ptr::null(),
            inbox,
            thread: Some(thread),
        };
        s.wait_parked();
        s
    }

    /// Blocks until the server is parked at `select!` with nothing left in its inbox (each
    /// queued message costs one `Recv` decision), or has ended.
    fn wait_parked(&mut self) {
        loop {
            match self.evt_rx.recv() {
                Ok(Evt::AtSelect(p)) => {
                    self.state = p;
                    if self.inbox.is_empty() {
                        return;
                    }
                    if self.choice_tx.send(SimChoice::Recv).is_err() {
                        self.death = Some("server thread gone".into());
                        return;
                    }
                }
                Ok(Evt::Ended(d)) => {
                    self.state = std::ptr::null();
                    self.death = Some(d);
                    return;
                }
                Err(_) => {
                    self.state = std::ptr::null();
                    self.death = Some("server thread gone".into());
                    return;
                }
            }
        }
    }

    pub fn alive(&self) -> bool {
        self.death.is_none()
    }

    /// Looks at the server's state while it is parked. `None` once it has ended.
    pub fn with_state<R>(&self, f: impl FnOnce(&GlobalState) -> R) -> Option<R> {
        if self.death.is_some() || self.state.is_null() {
            return None;
        }
        // SAFETY: the pointer was derived from the `&mut GlobalState` that `main_loop` lent to
        // `select!` → `sim_decide_with` → the hook, which is blocked in `choice_rx.recv()` on
        // the server thread until `step` sends the next choice; the two threads are ordered
        // by the channels, and nothing else touches the state meanwhile.
        Some(f(unsafe { &*self.state }))
    }

    pub fn is_stale(&self) -> bool {
        self.with_state(|s| s.is_stale).unwrap_or(false)
    }

    /// Puts a message into the server's inbox without letting the server run: it is worked
    /// off, in order, together with whatever the next `step` delivers (a client that does
    /// not wait for an answer before it sends more).
    pub fn enqueue(&mut self, m: Message) {
        if self.death.is_none() {
            self.client.sender.send(m).expect("memory channel");
        }
    }

    /// Lets the real `main_loop` run for one decision — plus one `Recv` per message that is
    /// still queued — until it is parked at `select!` again with an empty inbox. Returns
    /// everything the server sent meanwhile.
    pub fn step(&mut self, step: Step) -> Vec<Message> {
        if self.death.is_some() {
            return Vec::new();
        }
        self.steps += 1;
        let first = match step {
            Step::Deliver(m) => {
                self.client.sender.send(m).expect("memory channel");
                Some(SimChoice::Recv)
            }
            Step::Timeout => Some(SimChoice::Timeout),
            Step::Disconnect => Some(SimChoice::Disconnected),
            Step::Flush => {
                if self.inbox.is_empty() {
                    None
                } else {
                    Some(SimChoice::Recv)
                }
            }
        };
        if let Some(c) = first {
            if self.choice_tx.send(c).is_err() {
                self.death = Some("server thread gone".into());
            } else {
                self.wait_parked();
            }
        }
        self.client.receiver.try_iter().collect()
    }
}

impl Drop for Server {
    fn drop(&mut self) {
        // (`death` may have been set from outside — the real process this server stands beside
        // died — while the thread is still parked: always tell it to stop; if it has ended
        // already nobody listens, which is fine)
        let _ = self.choice_tx.send(SimChoice::Stop);
        if let Some(t) = self.thread.take() {
            let _ = t.join();
        }
    }
}
