//! The LSP simulation: the real server loop (lsp_server.rs) driven by a client
//! model over a scratch workspace, with the history = fresh oracle of C15 and the
//! hooks the semantic oracles of C17/C18 plug into.

use crate::lsp_server::{Server, Step};
use crate::position::{self, Pos};
use crate::prng::digest64;
use lsp_server::{Message, Notification, Request, RequestId, Response};
use serde::{Deserialize, Serialize};
use serde_json::{json, Value};
use std::collections::{BTreeMap, BTreeSet};
use std::path::PathBuf;
use url::Url;

#[derive(Serialize, Deserialize, Clone, Debug, PartialEq)]
pub struct Chg {
    pub range: Option<(Pos, Pos)>,
    pub text: String,
}

#[derive(Serialize, Deserialize, Clone, Copy, Debug, PartialEq, Eq, PartialOrd, Ord)]
pub enum ReqKind {
    Definition,
    References,
    PrepareRename,
    Rename,
}

#[derive(Serialize, Deserialize, Clone, Debug, PartialEq)]
pub enum Ev {
    Open { path: String, text: String },
    Change { path: String, changes: Vec<Chg> },
    Close { path: String },
    /// disk := buffer; the server is not told (it implements no save notification).
    Save { path: String },
    /// The 1000 ms idle timer fires before the next message.
    Idle,
    /// The folder's `oal.toml` is rewritten on disk (by hand, by a checkout) to name another
    /// main module. A server learns of it when the folder is announced again; nothing is
    /// compared before that.
    ConfigOnDisk { main: String },
    /// `didOpen` for a document that is open already (some editors do so after a language-mode
    /// change): the text given replaces the buffer, and the next `didClose` closes it.
    Reopen { path: String, text: String },
    /// A notification every editor sends and this server has no handler for (`didSave`,
    /// `$/cancelRequest`, `$/setTrace`, `didChangeWatchedFiles`, `didChangeConfiguration`):
    /// nothing may change.
    Noise { kind: u8 },
    /// The client stops waiting: up to `n` of the following notifications and requests reach
    /// the server's inbox before the server gets to run (anything else ends the burst early).
    Burst { n: u8 },
    Request {
        kind: ReqKind,
        path: String,
        pos: Pos,
        new_name: Option<String>,
        /// the client does not wait for the answer: the request and the next notification
        /// reach the server's inbox together
        #[serde(default)]
        pipelined: bool,
    },
    /// prepareRename → rename → apply the edits to the client's buffers → didChange them back.
    RenameLoop { path: String, pos: Pos, new_name: String },
    /// Remove a workspace folder, or add it back (`b`: the second folder `fb/`).
    Folder {
        add: bool,
        #[serde(default)]
        b: bool,
    },
    /// One notification that lists the folder both as removed and as added: how a client
    /// makes the server re-read the folder's configuration. The folder is present afterwards.
    FolderReadd {
        #[serde(default)]
        b: bool,
    },
    /// A module that is not open vanishes from disk behind the server's back (rm, git
    /// checkout); the server can only notice at its next refresh after a notification.
    /// `how`: 0 the file vanishes; 1 a directory takes its place; 2 its bytes stop being
    /// UTF-8 — the last two exist for `is_valid` but cannot be read
    DiskDelete {
        path: String,
        #[serde(default)]
        how: u8,
    },
    /// ...and comes back with the very same content.
    DiskRestore { path: String },
    Checkpoint,
    /// Semantic checkpoint against `Scenario::sem[target]` ("C17" or "C18").
    Sem { target: usize, mode: String },
}

#[derive(Serialize, Deserialize, Clone, Debug)]
pub struct Scenario {
    pub config: String,
    pub disk: BTreeMap<String, String>,
    pub hash_seed: u64,
    pub events: Vec<Ev>,
    #[serde(default)]
    pub sem: Vec<crate::sem::SemTarget>,
    /// A second, disjoint workspace folder rooted at `fb/` (its files are in `disk` under that prefix).
    #[serde(default)]
    pub folder_b: bool,
    /// version number a document gets when it is opened (editors restart it on every open)
    #[serde(default = "one")]
    pub version_base: i32,
    /// the client percent-encodes '+' in document URIs
    #[serde(default)]
    pub uri_plus_encoded: bool,
    /// the second folder's own oal.toml (None: the same text as the first folder's); may be
    /// broken (no main, not TOML) - the server then has nothing to evaluate there
    #[serde(default)]
    pub config_b: Option<String>,
}

fn one() -> i32 {
    1
}

pub struct World {
    pub root: PathBuf,
    /// The client spells '+' in document URIs as %2B (as VS Code does); the canonical
    /// spelling, the one the server derives from file paths, keeps '+'.
    pub plus_encoded: std::cell::Cell<bool>,
}

impl World {
    pub fn new() -> World {
        let scratch = std::env::var("OALSIM_SCRATCH").unwrap_or_else(|_| format!("/dev/shm/oalsim-{}", std::process::id()));
        let root = PathBuf::from(scratch).join("ws");
        World {
            root,
            plus_encoded: std::cell::Cell::new(false),
        }
    }
    pub fn reset(&self, config: &str, disk: &BTreeMap<String, String>) {
        let _ = std::fs::remove_dir_all(&self.root);
        std::fs::create_dir_all(&self.root).expect("scratch");
        std::fs::write(self.root.join("oal.toml"), config).expect("scratch");
        for (p, t) in disk {
            self.write(p, t);
        }
    }
    pub fn write(&self, path: &str, text: &str) {
        let p = self.root.join(path);
        std::fs::create_dir_all(p.parent().unwrap()).expect("scratch");
        if p.is_dir() {
            let _ = std::fs::remove_dir_all(&p);
        }
        std::fs::write(p, text).expect("scratch");
    }
    /// The file stays in place but cannot be read any more (see `Ev::DiskDelete::how`).
    pub fn make_unreadable(&self, path: &str, how: u8) {
        let p = self.root.join(path);
        let _ = std::fs::remove_file(&p);
        if how == 1 {
            std::fs::create_dir_all(&p).expect("scratch");
        } else {
            std::fs::write(&p, b"let a = \xff\xfe\x80 num;\n").expect("scratch");
        }
    }
    pub fn folder_b_uri(&self) -> Url {
        let canon = self.root.canonicalize().expect("scratch root");
        Url::from_file_path(canon.join("fb")).expect("abs path")
    }
    pub fn remove(&self, path: &str) {
        let p = self.root.join(path);
        if p.is_dir() {
            let _ = std::fs::remove_dir_all(&p);
        } else {
            let _ = std::fs::remove_file(&p);
        }
    }
    pub fn folder_uri(&self) -> Url {
        let canon = self.root.canonicalize().expect("scratch root");
        Url::from_file_path(canon).expect("abs path")
    }
    pub fn uri(&self, path: &str) -> Url {
        let canon = self.root.canonicalize().expect("scratch root");
        let u = Url::from_file_path(canon.join(path)).expect("abs path");
        if self.plus_encoded.get() && path.contains('+') {
            return Url::parse(&u.as_str().replace('+', "%2B")).expect("url");
        }
        u
    }
    /// Replaces the scratch location inside free text (error messages quote locators).
    pub fn scrub(&self, s: &str) -> String {
        s.replace(&format!("{}/", self.folder_uri()), "$WS/")
    }
    /// The URI relative to the workspace folder, spelling preserved: two spellings of one
    /// file are two documents for the server and stay two keys here.
    pub fn rel_raw(&self, uri: &str) -> String {
        let base = self.folder_uri().to_string();
        if uri == base {
            return "$WS".to_string();
        }
        uri.strip_prefix(&format!("{base}/")).unwrap_or(uri).to_string()
    }

    /// The workspace-relative path a URI denotes (percent-encoding decoded).
    pub fn rel(&self, uri: &str) -> String {
        let base = self.folder_uri().to_string();
        if uri == base {
            return "$WS".to_string();
        }
        if let Some(r) = uri.strip_prefix(&format!("{base}/")) {
            if let Ok(p) = Url::parse(uri).map_err(|_| ()).and_then(|u| u.to_file_path()) {
                let root = self.root.canonicalize().expect("scratch root");
                if let Ok(rp) = p.strip_prefix(&root) {
                    if let Some(s) = rp.to_str() {
                        return s.to_string();
                    }
                }
            }
            return r.to_string();
        }
        uri.to_string()
    }
}

#[derive(Clone, Debug, Default)]
pub struct ClientModel {
    pub disk: BTreeMap<String, String>,
    pub open: BTreeMap<String, (String, i32)>,
    pub folder_present: bool,
    /// the second folder `fb/` is part of the workspace
    pub folder_b_present: bool,
    /// modules deleted behind the server's back, with the content they come back with
    pub deleted: BTreeMap<String, String>,
}

impl ClientModel {
    pub fn effective(&self, path: &str) -> Option<&String> {
        self.open.get(path).map(|x| &x.0).or_else(|| self.disk.get(path))
    }
    pub fn effective_all(&self) -> BTreeMap<String, String> {
        let mut m = self.disk.clone();
        for (p, (t, _)) in &self.open {
            m.insert(p.clone(), t.clone());
        }
        m
    }
}

pub type Diags = BTreeMap<String, Vec<(u32, u32, u32, u32, String)>>;

#[derive(Clone, Debug)]
pub struct Violation {
    pub oracle: String,
    pub detail: String,
    pub signature: String,
    /// index of the event at which it was detected
    pub at: usize,
}

#[derive(Default, Clone)]
pub struct Stats {
    pub probes: BTreeSet<String>,
    pub counters: BTreeMap<String, u64>,
    pub states: Vec<u64>,
    pub interleaving: String,
    pub sim_time_ms: u64,
    pub oracle_checks: u64,
    pub evals: u64,
}

impl Stats {
    pub fn probe(&mut self, p: &str) {
        self.probes.insert(p.to_string());
    }
    pub fn count(&mut self, k: &str, n: u64) {
        *self.counters.entry(k.to_string()).or_default() += n;
    }
}

fn norm_diags(world: &World, uri: &str, params: &Value, into: &mut Diags) {
    let mut v: Vec<(u32, u32, u32, u32, String)> = params["diagnostics"]
        .as_array()
        .map(|a| {
            a.iter()
                .map(|d| {
                    let r = &d["range"];
                    (
                        r["start"]["line"].as_u64().unwrap_or(0) as u32,
                        r["start"]["character"].as_u64().unwrap_or(0) as u32,
                        r["end"]["line"].as_u64().unwrap_or(0) as u32,
                        r["end"]["character"].as_u64().unwrap_or(0) as u32,
                        world.scrub(d["message"].as_str().unwrap_or("")),
                    )
                })
                .collect()
        })
        .unwrap_or_default();
    v.sort();
    let key = world.rel_raw(uri);
    if v.is_empty() {
        into.remove(&key);
    } else {
        into.insert(key, v);
    }
}

/// Sorts every array (location lists, edit lists legitimately follow HashMap order)
/// and strips the scratch root from URIs.
pub fn canon_result(world: &World, v: &Value) -> Value {
    match v {
        Value::Array(a) => {
            let mut items: Vec<Value> = a.iter().map(|x| canon_result(world, x)).collect();
            items.sort_by_key(|x| x.to_string());
            Value::Array(items)
        }
        Value::Object(o) => {
            let mut m = serde_json::Map::new();
            for (k, x) in o {
                let k2 = if k.starts_with("file://") { world.rel_raw(k) } else { k.clone() };
                m.insert(k2, canon_result(world, x));
            }
            Value::Object(m)
        }
        Value::String(s) if s.starts_with("file://") => Value::String(world.rel_raw(s)),
        Value::String(s) if s.contains("file://") => Value::String(world.scrub(s)),
        o => o.clone(),
    }
}

pub struct Peer<'w> {
    pub world: &'w World,
    pub server: Server,
    /// When set, every message goes to the real `oal-lsp` process instead of the
    /// in-process server (`server` then only carries the cause of death).
    pub real: Option<crate::realproc::RealProc>,
    /// Document used for the barrier request that stands in for an idle tick in real mode.
    pub barrier: Option<String>,
    pub diags: Diags,
    pub next_id: i32,
    pub log: String,
    /// Canonical request answers and diagnostic snapshots, in order (sim-vs-real transcript).
    pub transcript: Vec<String>,
    /// responses received and not yet claimed, by request id
    pub answers: BTreeMap<String, Value>,
    /// in a burst: notifications go to the inbox, the server does not run yet
    pub hold: bool,
}

pub fn real_lsp_bin() -> Option<String> {
    std::env::var("OALSIM_REAL_LSP").ok().filter(|s| !s.is_empty())
}

fn to_message(v: Value) -> Option<Message> {
    serde_json::from_value::<Message>(v).ok()
}

impl<'w> Peer<'w> {
    pub fn new(world: &'w World, with_folder: bool) -> Peer<'w> {
        Peer::new2(world, with_folder, false)
    }

    pub fn new2(world: &'w World, with_folder: bool, with_b: bool) -> Peer<'w> {
        let mut folders = if with_folder { vec![world.folder_uri()] } else { vec![] };
        if with_b {
            folders.push(world.folder_b_uri());
        }
        let real = real_lsp_bin().and_then(|b| crate::realproc::RealProc::spawn(&b, &folders));
        let mut server = Server::new(&folders);
        if real_lsp_bin().is_some() && real.is_none() {
            server.death = Some("real process failed to start".into());
        }
        Peer {
            world,
            server,
            real,
            barrier: None,
            diags: Diags::new(),
            next_id: 1,
            log: String::new(),
            transcript: Vec::new(),
            answers: BTreeMap::new(),
            hold: false,
        }
    }

    fn sync_real_death(&mut self) {
        if let Some(r) = &self.real {
            if let Some(d) = &r.dead {
                if self.server.death.is_none() {
                    self.server.death = Some(d.clone());
                }
            }
        }
    }

    pub fn snapshot(&mut self) {
        self.transcript.push(format!("D {:?}", self.diags));
    }

    fn absorb(&mut self, out: Vec<Message>) {
        // Within one step the order of published notifications follows HashMap iteration
        // (legitimately): log the batch sorted.
        let mut batch: Vec<String> = Vec::new();
        for m in out {
            match m {
                Message::Notification(n) => {
                    if n.method == "textDocument/publishDiagnostics" {
                        let uri = n.params["uri"].as_str().unwrap_or("").to_string();
                        norm_diags(self.world, &uri, &n.params, &mut self.diags);
                    }
                    batch.push(format!("<N {} {}\n", n.method, canon_result(self.world, &n.params)));
                }
                Message::Response(r) => {
                    let v = r.result.clone().unwrap_or(Value::Null);
                    batch.push(format!("<R {} {}\n", r.id, canon_result(self.world, &v)));
                    self.answers.insert(r.id.to_string(), if r.error.is_some() { json!({"error": r.error.map(|e| e.message)}) } else { v });
                }
                Message::Request(r) => {
                    batch.push(format!("<Q {}\n", r.method));
                }
            }
        }
        batch.sort();
        for l in batch {
            self.log.push_str(&l);
        }
    }

    pub fn notify(&mut self, method: &str, params: Value) {
        self.log.push_str(&format!(">N {} {}\n", method, canon_result(self.world, &params)));
        if let Some(r) = self.real.as_mut() {
            r.send(&json!({"jsonrpc": "2.0", "method": method, "params": params}));
            self.sync_real_death();
            return;
        }
        let m = Message::Notification(Notification {
            method: method.to_string(),
            params,
        });
        if self.hold {
            self.server.enqueue(m);
            return;
        }
        let out = self.server.step(Step::Deliver(m));
        self.absorb(out);
    }

    /// End of a burst: the server works off its inbox.
    pub fn release(&mut self) {
        self.hold = false;
        if self.real.is_none() {
            self.log.push_str(">F\n");
            let out = self.server.step(Step::Flush);
            self.absorb(out);
        }
    }

    pub fn idle(&mut self) {
        self.log.push_str(">T\n");
        if self.real.is_some() {
            // An idle tick on the real process: a barrier request forces the same
            // `refresh` (requests refresh before dispatch); without any document to ask
            // about, wait for the genuine 1000 ms timer.
            let msgs = match self.barrier.clone() {
                Some(path) => {
                    let id = self.next_id;
                    self.next_id += 1;
                    let uri = self.world.uri(&path);
                    let params = json!({"textDocument": {"uri": uri}, "position": {"line": 0, "character": 0}});
                    let mut v = self.real.as_mut().unwrap().request(id, "textDocument/definition", params);
                    v.pop(); // the barrier's own answer is not part of the transcript
                    v
                }
                None => self.real.as_mut().unwrap().drain(std::time::Duration::from_millis(1150)),
            };
            self.sync_real_death();
            let out: Vec<Message> = msgs.into_iter().filter_map(to_message).collect();
            self.absorb(out);
            self.snapshot();
            return;
        }
        let out = self.server.step(Step::Timeout);
        self.absorb(out);
        self.snapshot();
    }

    pub fn request(&mut self, method: &str, params: Value) -> Option<Value> {
        let id = self.next_id;
        self.next_id += 1;
        self.log.push_str(&format!(">Q {} {}\n", method, canon_result(self.world, &params)));
        let out: Vec<Message> = if let Some(r) = self.real.as_mut() {
            let msgs = r.request(id, method, params);
            self.sync_real_death();
            msgs.into_iter().filter_map(to_message).collect()
        } else {
            self.server.step(Step::Deliver(Message::Request(Request {
                id: RequestId::from(id),
                method: method.to_string(),
                params,
            })))
        };
        self.absorb(out);
        let a = self.answers.remove(&id.to_string());
        self.transcript.push(format!("A {}", a.as_ref().map(|v| canon_result(self.world, v).to_string()).unwrap_or_else(|| "-".into())));
        self.snapshot();
        a
    }

    /// Sends a request without waiting for (or, in process, even allowing) its answer.
    pub fn enqueue_request(&mut self, kind: ReqKind, path: &str, pos: Pos, new_name: Option<&str>) -> i32 {
        let (method, params) = self.req_parts(kind, path, pos, new_name);
        let id = self.next_id;
        self.next_id += 1;
        self.log.push_str(&format!(">Q(pipelined) {} {}\n", method, canon_result(self.world, &params)));
        if let Some(r) = self.real.as_mut() {
            r.send(&json!({"jsonrpc": "2.0", "id": id, "method": method, "params": params}));
            self.sync_real_death();
        } else {
            self.server.enqueue(Message::Request(Request {
                id: RequestId::from(id),
                method: method.to_string(),
                params,
            }));
        }
        id
    }

    /// The answer to a request sent with `enqueue_request`, once whatever followed it has
    /// been sent as well.
    pub fn settle(&mut self, id: i32) -> Option<Value> {
        if !self.answers.contains_key(&id.to_string()) {
            let out: Vec<Message> = if let Some(r) = self.real.as_mut() {
                let msgs = r.await_response(id);
                self.sync_real_death();
                msgs.into_iter().filter_map(to_message).collect()
            } else {
                self.server.step(Step::Flush)
            };
            self.absorb(out);
        }
        let a = self.answers.remove(&id.to_string());
        // (the diagnostics are recorded once all requests of the burst have been answered: the
        // real process has published for the later ones by then, as the simulated one has)
        self.transcript.push(format!("A {}", a.as_ref().map(|v| canon_result(self.world, v).to_string()).unwrap_or_else(|| "-".into())));
        a
    }

    pub fn did_open(&mut self, path: &str, text: &str, version: i32) {
        let uri = self.world.uri(path);
        self.notify(
            "textDocument/didOpen",
            json!({"textDocument": {"uri": uri, "languageId": "oal", "version": version, "text": text}}),
        );
    }

    fn req_parts(&self, kind: ReqKind, path: &str, pos: Pos, new_name: Option<&str>) -> (&'static str, Value) {
        let uri = self.world.uri(path);
        let tdp = json!({"textDocument": {"uri": uri}, "position": {"line": pos.line, "character": pos.character}});
        match kind {
            ReqKind::Definition => ("textDocument/definition", tdp),
            ReqKind::References => {
                let mut p = tdp;
                p["context"] = json!({"includeDeclaration": false});
                ("textDocument/references", p)
            }
            ReqKind::PrepareRename => ("textDocument/prepareRename", tdp),
            ReqKind::Rename => {
                let mut p = tdp;
                p["newName"] = json!(new_name.unwrap_or("renamed_x"));
                ("textDocument/rename", p)
            }
        }
    }

    pub fn send_request(&mut self, kind: ReqKind, path: &str, pos: Pos, new_name: Option<&str>) -> Option<Value> {
        let (method, params) = self.req_parts(kind, path, pos, new_name);
        self.request(method, params)
    }
}

/// A fresh server handed the client's current texts (open buffers + disk), quiesced.
pub fn fresh_peer<'w>(world: &'w World, client: &ClientModel) -> Peer<'w> {
    let mut p = Peer::new2(world, client.folder_present, client.folder_b_present);
    for (path, (text, version)) in client.open.iter() {
        p.did_open(path, text, *version);
    }
    p.barrier = barrier_doc(client);
    p.idle();
    p
}

/// A document a request can be asked about without disturbing anything: an open one if
/// there is any, else one on disk.
pub fn barrier_doc(client: &ClientModel) -> Option<String> {
    client.open.keys().next().cloned().or_else(|| client.disk.keys().next().cloned())
}

pub struct Exec<'w> {
    pub world: &'w World,
    pub peer: Peer<'w>,
    pub client: ClientModel,
    pub stats: Stats,
    pub violation: Option<Violation>,
    /// set when the run must be discarded (pipeline crash that a fresh server shares)
    pub discarded: Option<String>,
    pub check_drift: bool,
    pub compare_fresh_on_requests: bool,
    pub sem: Vec<crate::sem::SemTarget>,
    /// the disk changed behind the server's back and no notification has reached it since:
    /// its view may legitimately lag, so nothing is compared until one has
    pub external_pending: bool,
    /// `oal.toml` changed on disk and the folder has not been announced again since
    pub config_pending: bool,
    /// the main module the first folder's `oal.toml` names at the moment
    pub main_now: String,
    /// modules that exist on disk but cannot be read at the moment (a transient read fault):
    /// a server that read one before still has its text, a fresh one cannot get it, so the
    /// two are only compared again once the module is readable and a notification went by
    pub unreadable: BTreeSet<String>,
    /// a request that is in the server's inbox but has not been answered: (id, what was
    /// asked, the answer of a fresh server handed the texts of that moment, event index)
    pub pending_reqs: Vec<(i32, ReqKind, String, Pos, Option<Value>, usize)>,
    /// messages that may still join the current burst
    pub burst_left: u32,
    pub version_base: i32,
}

fn legal_path(p: &str) -> bool {
    !p.is_empty() && !p.contains("..") && !p.starts_with('/')
}

impl<'w> Exec<'w> {
    pub fn new(world: &'w World, scn: &Scenario) -> Exec<'w> {
        world.reset(&scn.config, &scn.disk);
        world.plus_encoded.set(scn.uri_plus_encoded);
        if scn.folder_b {
            world.write("fb/oal.toml", scn.config_b.as_deref().unwrap_or(&scn.config));
        }
        let client = ClientModel {
            disk: scn.disk.clone(),
            open: BTreeMap::new(),
            folder_present: true,
            folder_b_present: scn.folder_b,
            deleted: BTreeMap::new(),
        };
        Exec {
            world,
            external_pending: false,
            config_pending: false,
            main_now: "main.oal".into(),
            unreadable: BTreeSet::new(),
            pending_reqs: Vec::new(),
            burst_left: 0,
            version_base: scn.version_base,
            peer: Peer::new2(world, true, scn.folder_b),
            client,
            stats: Stats::default(),
            violation: None,
            discarded: None,
            check_drift: true,
            compare_fresh_on_requests: true,
            sem: scn.sem.clone(),
        }
    }

    pub fn fail_pub(&mut self, at: usize, oracle: &str, signature: String, detail: String) {
        self.fail(at, oracle, signature, detail)
    }

    fn fail(&mut self, at: usize, oracle: &str, signature: String, detail: String) {
        if self.violation.is_none() && self.discarded.is_none() {
            self.violation = Some(Violation {
                oracle: oracle.to_string(),
                detail,
                signature,
                at,
            });
        }
    }

    fn has_folder_b_files(&self) -> bool {
        self.client.disk.keys().any(|p| p.starts_with("fb/"))
    }

    fn abstract_state(&self) -> u64 {
        let s = format!(
            "{:?}|{}|{:?}|{}",
            self.client.open.keys().collect::<Vec<_>>(),
            self.peer.server.is_stale(),
            self.peer.diags.keys().collect::<Vec<_>>(),
            self.peer.server.with_state(|s| s.folders.values().filter(|f| f.modules().is_some()).count()).unwrap_or(0)
        );
        digest64(s.as_bytes())
    }

    #[cfg(oal_verif)]
    fn drift(&self) -> Option<String> {
        self.peer.server.with_state(|s| self.drift_in(s.workspace.verif_docs())).flatten()
    }

    #[cfg(oal_verif)]
    fn drift_in(&self, docs: &std::collections::HashMap<oal_model::locator::Locator, String>) -> Option<String> {
        for (path, (text, _)) in self.client.open.iter() {
            let uri = self.world.uri(path);
            let loc = oal_model::locator::Locator::from(uri.clone());
            // the server may keep the document under the spelling the client used or under
            // any other spelling of the same file: both are fine, as long as it has the text
            let fpath = uri.to_file_path().ok();
            let found = docs.get(&loc).or_else(|| docs.iter().find(|(k, _)| fpath.is_some() && k.url().to_file_path().ok() == fpath).map(|(_, v)| v));
            match found {
                None => return Some(format!("{path}: open on the client, absent on the server")),
                Some(t) if t != text => {
                    let k = t.bytes().zip(text.bytes()).position(|(a, b)| a != b).unwrap_or(t.len().min(text.len()));
                    return Some(format!(
                        "{path}: server copy differs from client buffer at byte {k} (server {} bytes, client {} bytes)",
                        t.len(),
                        text.len()
                    ));
                }
                _ => {}
            }
        }
        None
    }

    #[cfg(not(oal_verif))]
    fn drift(&self) -> Option<String> {
        None
    }

    /// The history server died at event `at`. Decide whether that is the history's fault.
    fn attribute_death(&mut self, at: usize, ev: &Ev, pre_client: &ClientModel) {
        let death = self.peer.server.death.clone().unwrap_or_default();
        // Reproduce on a fresh server: current texts, then the same last event.
        let base = match ev {
            Ev::Request { .. } | Ev::RenameLoop { .. } | Ev::Idle | Ev::Checkpoint | Ev::Sem { .. } => pre_client.clone(),
            _ => self.client.clone(),
        };
        if !base.deleted.is_empty() {
            // modules that are gone or unreadable at the moment: the history server may still
            // work with what it read of them before. Whether the *texts* are to blame is
            // asked with those modules in place; a run discarded on that ground ends here.
            let mut with_all = base.clone();
            for (p, t) in base.deleted.iter() {
                self.world.write(p, t);
                with_all.disk.insert(p.clone(), t.clone());
            }
            let shared = !fresh_peer(self.world, &with_all).server.alive();
            for p in base.deleted.keys() {
                if self.unreadable.contains(p) {
                    self.world.make_unreadable(p, 2);
                } else {
                    self.world.remove(p);
                }
            }
            if shared {
                self.stats.count("skipped_pipeline_crash", 1);
                self.discarded = Some("refresh dies on a fresh server too (with the vanished modules in place)".into());
                return;
            }
        }
        let mut fresh = fresh_peer(self.world, &base);
        if !fresh.server.alive() {
            self.stats.count("skipped_pipeline_crash", 1);
            let cause = fresh.server.death.clone().unwrap_or_default();
            self.stats.count(&format!("pipeline_crash: {}", cause.chars().filter(|c| !c.is_ascii_digit()).take(70).collect::<String>()), 1);
            self.discarded = Some(format!("refresh dies on a fresh server too: {cause}"));
            return;
        }
        match ev {
            Ev::Request { kind, path, pos, new_name, .. } => {
                fresh.send_request(*kind, path, *pos, new_name.as_deref());
                if !fresh.server.alive() {
                    // A handler killed the server: C17/C18 liveness (and C15's "stays alive").
                    let sig = death_signature(&death, Some(*kind));
                    self.fail(at, "server-died-in-request", sig, format!("{kind:?} at {path}:{pos:?}: {death}"));
                    return;
                }
            }
            Ev::RenameLoop { path, pos, new_name } => {
                let r = fresh.send_request(ReqKind::PrepareRename, path, *pos, None);
                if fresh.server.alive() && r.map(|v| !v.is_null()).unwrap_or(false) {
                    fresh.send_request(ReqKind::Rename, path, *pos, Some(new_name));
                }
                if !fresh.server.alive() {
                    let sig = death_signature(&death, Some(ReqKind::Rename));
                    self.fail(at, "server-died-in-request", sig, format!("rename loop at {path}:{pos:?}: {death}"));
                    return;
                }
            }
            _ => {}
        }
        let sig = death_signature(&death, None);
        self.fail(at, "history-server-died", sig, format!("event #{at} {}: {death} (a fresh server given the same texts survives)", ev_name(ev)));
    }

    /// history = fresh: the given requests go to the history server first (a request makes
    /// it refresh, so it is quiescent afterwards), then a fresh server is handed the current
    /// texts; published diagnostics and the answers must agree.
    pub fn compare_with_fresh(&mut self, at: usize, reqs: &[(ReqKind, String, Pos, Option<String>)]) {
        if self.violation.is_some() || self.discarded.is_some() || !self.peer.server.alive() {
            return;
        }
        if self.external_pending || self.config_pending {
            self.stats.count("comparison_skipped_external_change_pending", 1);
            for (kind, path, pos, new_name) in reqs.iter() {
                if self.client.effective(path).is_some() {
                    self.peer.send_request(*kind, path, *pos, new_name.as_deref());
                }
            }
            return;
        }
        let reqs: Vec<&(ReqKind, String, Pos, Option<String>)> = reqs.iter().filter(|r| self.client.effective(&r.1).is_some()).collect();
        let mut answers = Vec::new();
        for (kind, path, pos, new_name) in reqs.iter() {
            let a = self.peer.send_request(*kind, path, *pos, new_name.as_deref());
            if !self.peer.server.alive() {
                return; // attributed by the caller
            }
            answers.push(a);
        }
        let mut fresh = fresh_peer(self.world, &self.client);
        self.stats.evals += 1;
        if !fresh.server.alive() {
            self.stats.count("skipped_pipeline_crash", 1);
            let cause = fresh.server.death.clone().unwrap_or_default();
            self.stats.count(&format!("pipeline_crash: {}", cause.chars().filter(|c| !c.is_ascii_digit()).take(70).collect::<String>()), 1);
            self.discarded = Some(format!("fresh server dies in refresh: {cause}"));
            return;
        }
        self.stats.oracle_checks += 1;
        if self.peer.diags != fresh.diags {
            let stale: Vec<&String> = self.peer.diags.keys().filter(|k| !fresh.diags.contains_key(*k)).collect();
            let missing: Vec<&String> = fresh.diags.keys().filter(|k| !self.peer.diags.contains_key(*k)).collect();
            let sig = if !stale.is_empty() {
                let closed = stale.iter().all(|p| !self.client.open.contains_key(&decode(p)));
                format!("diagnostics-stale closed-doc={closed}")
            } else if !missing.is_empty() {
                "diagnostics-missing".to_string()
            } else {
                "diagnostics-differ".to_string()
            };
            let detail = format!("history {:?} fresh {:?}", self.peer.diags, fresh.diags);
            self.fail(at, "history-vs-fresh-diagnostics", sig, detail);
            return;
        }
        if !self.peer.diags.is_empty() {
            self.stats.probe("diagnostics_outstanding_at_comparison");
            if self.peer.diags.keys().any(|p| !self.client.open.contains_key(&decode(p))) {
                self.stats.probe("diag_on_disk_only_file");
            }
        }
        for ((kind, path, pos, new_name), a) in reqs.iter().zip(answers.into_iter()) {
            let b = fresh.send_request(*kind, path, *pos, new_name.as_deref());
            self.stats.count("requests_compared", 1);
            self.stats.oracle_checks += 1;
            if !fresh.server.alive() {
                self.fail(at, "history-vs-fresh-request", "request-liveness-differs".into(), format!("{kind:?} at {path}:{pos:?}: fresh server died, history server did not"));
                return;
            }
            let (ca, cb) = (a.map(|v| canon_result(self.world, &v)), b.map(|v| canon_result(self.world, &v)));
            if ca != cb {
                self.fail(
                    at,
                    "history-vs-fresh-request",
                    format!("request-answer-differs kind={kind:?}"),
                    format!("{kind:?} at {path}:{pos:?}: history {ca:?} fresh {cb:?}"),
                );
                return;
            }
        }
    }

    pub fn apply(&mut self, at: usize, ev: &Ev) {
        if self.violation.is_some() || self.discarded.is_some() {
            return;
        }
        let pre_client = self.client.clone();
        if (self.burst_left > 0 || !self.pending_reqs.is_empty()) && !matches!(ev, Ev::Open { .. } | Ev::Reopen { .. } | Ev::Change { .. } | Ev::Close { .. } | Ev::Request { .. } | Ev::Noise { .. }) {
            // only plain notifications and requests travel in a burst
            self.release(at, ev, &pre_client);
            if self.violation.is_some() || self.discarded.is_some() {
                return;
            }
        }
        self.peer.barrier = barrier_doc(&self.client);
        let stale_before = self.peer.server.is_stale();
        let mut sent = true;
        let mut enqueued = false;
        match ev {
            Ev::Open { path, text } => {
                if self.client.open.contains_key(path) || !legal_path(path) {
                    sent = false;
                } else {
                    if !self.client.disk.contains_key(path) {
                        self.stats.probe("open_file_not_on_disk");
                    } else if self.client.disk.get(path) != Some(text) {
                        self.stats.probe("open_with_unsaved_text");
                    }
                    self.client.open.insert(path.clone(), (text.clone(), self.version_base));
                    self.peer.did_open(path, text, self.version_base);
                }
            }
            Ev::Reopen { path, text } => {
                if !self.client.open.contains_key(path) {
                    sent = false;
                } else {
                    self.stats.probe("document_opened_again_while_open");
                    self.client.open.insert(path.clone(), (text.clone(), self.version_base));
                    self.peer.did_open(path, text, self.version_base);
                }
            }
            Ev::Change { path, changes } if !changes_legal(self.client.open.get(path).map(|x| x.0.as_str()), changes) => {
                // a position inside a surrogate pair (possible only when a minimisation
                // candidate or a rename loop put the plan out of step with the buffer)
                let _ = path;
                sent = false;
            }
            Ev::Change { path, changes } => {
                if let Some((buf, ver)) = self.client.open.get_mut(path) {
                    *ver = ver.saturating_add(1);
                    let mut arr = Vec::new();
                    for c in changes {
                        // probes on the text this change applies to
                        if let Some((s, e)) = c.range {
                            let a = position::to_offset(buf, s);
                            if a == buf.len() {
                                self.stats.probes.insert("edit_at_eof".into());
                            }
                            let ls = position::line_starts(buf);
                            let li = (s.line as usize).min(ls.len() - 1);
                            let le = if li + 1 < ls.len() { ls[li + 1] } else { buf.len() };
                            let line = &buf[ls[li]..le];
                            if !line.is_ascii() {
                                self.stats.probes.insert("edit_inside_multibyte_line".into());
                            }
                            if line.ends_with("\r\n") {
                                self.stats.probes.insert("crlf_edit".into());
                            }
                            if position::to_pos(buf, a) != s || position::to_pos(buf, position::to_offset(buf, e)) != e {
                                self.stats.probes.insert("clamped_position".into());
                            }
                            arr.push(json!({"range": {"start": {"line": s.line, "character": s.character}, "end": {"line": e.line, "character": e.character}}, "text": c.text}));
                        } else {
                            arr.push(json!({"text": c.text}));
                        }
                        position::apply_change(buf, c.range, &c.text);
                    }
                    if changes.len() > 1 {
                        self.stats.probes.insert("multi_change_notification".into());
                    }
                    let ver = *ver;
                    let uri = self.world.uri(path);
                    self.peer.notify("textDocument/didChange", json!({"textDocument": {"uri": uri, "version": ver}, "contentChanges": arr}));
                } else {
                    sent = false;
                }
            }
            Ev::Close { path } => {
                if self.client.open.remove(path).is_some() {
                    if stale_before {
                        self.stats.probe("close_before_refresh");
                    }
                    if self.peer.diags.keys().any(|k| decode(k) == *path) {
                        self.stats.probe("close_doc_with_outstanding_diagnostics");
                    }
                    let uri = self.world.uri(path);
                    self.peer.notify("textDocument/didClose", json!({"textDocument": {"uri": uri}}));
                } else {
                    sent = false;
                }
            }
            Ev::Save { path } => {
                // Saving a document that does not exist on disk would change what
                // "exists" without any notification reaching the server; the property
                // quantifies over open/change/close histories, so that is outside the
                // envelope: only documents already on disk are saved.
                if !self.client.disk.contains_key(path) || (self.world.plus_encoded.get() && path.contains('+')) {
                    // (second case: under the %2B spelling the server does not connect the
                    // buffer with the file; saving would modify a cached file behind its back)
                } else if let Some((buf, _)) = self.client.open.get(path) {
                    self.client.disk.insert(path.clone(), buf.clone());
                    self.world.write(path, buf);
                    self.stats.probe("save");
                    // ... and tells the server, as editors do (it has no handler for it)
                    let uri = self.world.uri(path);
                    self.peer.notify("textDocument/didSave", json!({"textDocument": {"uri": uri}}));
                }
                sent = false;
            }
            Ev::Noise { kind } => {
                let (method, params) = match kind % 5 {
                    0 => ("textDocument/didSave", json!({"textDocument": {"uri": self.world.uri("main.oal")}})),
                    1 => ("$/cancelRequest", json!({"id": self.peer.next_id - 1})),
                    2 => ("$/setTrace", json!({"value": "off"})),
                    3 => ("workspace/didChangeWatchedFiles", json!({"changes": []})),
                    _ => ("workspace/didChangeConfiguration", json!({"settings": {}})),
                };
                self.stats.probe("notification_without_a_handler");
                self.peer.notify(method, params);
            }
            Ev::Burst { n } => {
                sent = false;
                if self.compare_fresh_on_requests && !self.external_pending && !self.config_pending {
                    self.burst_left = (*n).clamp(2, 8) as u32;
                    self.peer.hold = true;
                    self.stats.probe("burst_started");
                }
            }
            Ev::Idle => {
                if !stale_before {
                    self.stats.probe("idle_with_nothing_stale");
                }
                self.stats.sim_time_ms += 1000;
                self.peer.idle();
            }
            Ev::ConfigOnDisk { main } => {
                sent = false;
                if legal_path(main) && self.client.disk.contains_key(main) {
                    self.world.write("oal.toml", &format!("[api]\nmain = \"{main}\"\ntarget = \"out.yaml\"\n"));
                    self.config_pending = true;
                    self.main_now = main.clone();
                    self.stats.probe("configuration_rewritten_behind_the_server");
                }
            }
            Ev::Folder { add, b } => {
                let (uri, present) = if *b { (self.world.folder_b_uri(), self.client.folder_b_present) } else { (self.world.folder_uri(), self.client.folder_present) };
                let f = json!({"uri": uri, "name": "ws"});
                if *b && !self.has_folder_b_files() {
                    sent = false;
                } else if *add && present {
                    // the same folder announced again: it is simply (still) present
                    self.stats.probe("folder_added_twice");
                    self.peer.notify("workspace/didChangeWorkspaceFolders", json!({"event": {"added": [f], "removed": []}}));
                } else if *add && !present {
                    if *b {
                        self.client.folder_b_present = true;
                    } else {
                        self.client.folder_present = true;
                    }
                    self.peer.notify("workspace/didChangeWorkspaceFolders", json!({"event": {"added": [f], "removed": []}}));
                } else if !*add && present {
                    if *b {
                        self.client.folder_b_present = false;
                    } else {
                        self.client.folder_present = false;
                    }
                    if !self.client.open.is_empty() {
                        self.stats.probe("folder_removed_with_open_docs");
                    }
                    self.peer.notify("workspace/didChangeWorkspaceFolders", json!({"event": {"added": [], "removed": [f]}}));
                } else {
                    sent = false;
                }
            }
            Ev::FolderReadd { b } => {
                let (uri, present) = if *b { (self.world.folder_b_uri(), self.client.folder_b_present) } else { (self.world.folder_uri(), self.client.folder_present) };
                if !present || (*b && !self.has_folder_b_files()) {
                    sent = false;
                } else {
                    let f = json!({"uri": uri, "name": "ws"});
                    self.stats.probe("folder_removed_and_added_in_one_notification");
                    self.peer.notify("workspace/didChangeWorkspaceFolders", json!({"event": {"added": [f.clone()], "removed": [f]}}));
                }
            }
            Ev::DiskDelete { path, how } => {
                sent = false;
                // (a main module that vanishes is another matter than an import that does)
                let is_main = path == "main.oal" || path == "fb/main.oal" || *path == self.main_now;
                if !is_main && !self.client.open.contains_key(path) {
                    if let Some(t) = self.client.disk.remove(path) {
                        self.client.deleted.insert(path.clone(), t);
                        if *how == 0 {
                            self.world.remove(path);
                            self.stats.probe("module_deleted_behind_the_server");
                        } else {
                            self.world.make_unreadable(path, *how);
                            self.unreadable.insert(path.clone());
                            self.stats.probe(if *how == 1 { "module_replaced_by_directory_behind_the_server" } else { "module_not_utf8_behind_the_server" });
                        }
                        self.external_pending = true;
                    }
                }
            }
            Ev::DiskRestore { path } => {
                sent = false;
                if !self.client.disk.contains_key(path) {
                    if let Some(t) = self.client.deleted.remove(path) {
                        self.world.write(path, &t);
                        self.client.disk.insert(path.clone(), t);
                        if self.unreadable.remove(path) {
                            self.stats.probe("module_readable_again_behind_the_server");
                        }
                        self.external_pending = true;
                        self.stats.probe("module_restored_behind_the_server");
                    }
                }
            }
            Ev::Request { kind, path, pos, new_name, pipelined } => {
                if self.client.effective(path).map(|t| !position::representable(t, *pos)).unwrap_or(true) {
                    sent = false;
                } else if (*pipelined || self.burst_left > 0) && self.compare_fresh_on_requests && !self.external_pending && !self.config_pending && self.pipeline_request(*kind, path, *pos, new_name.as_deref(), at) {
                    // in the inbox; answered together with what follows
                    sent = false;
                    enqueued = true;
                } else {
                    if self.burst_left > 0 || !self.pending_reqs.is_empty() {
                        self.release(at, ev, &pre_client);
                        if self.violation.is_some() || self.discarded.is_some() {
                            return;
                        }
                    }
                    if stale_before {
                        self.stats.probe("request_while_stale");
                    }
                    if self.compare_fresh_on_requests {
                        // quiesce through the request itself, then compare with a fresh server
                        self.compare_with_fresh(at, &[(*kind, path.clone(), *pos, new_name.clone())]);
                    } else {
                        self.peer.send_request(*kind, path, *pos, new_name.as_deref());
                    }
                }
            }
            Ev::RenameLoop { path, pos, new_name } => {
                if self.client.effective(path).map(|t| !position::representable(t, *pos)).unwrap_or(true) {
                    sent = false;
                } else {
                    if stale_before {
                        self.stats.probe("request_while_stale");
                    }
                    self.rename_loop(at, path, *pos, new_name);
                }
            }
            Ev::Sem { .. } if self.external_pending || self.config_pending => {
                // the disk changed behind the server's back and it has not been told anything
                // since: its view may lag, the semantic answers are not judged now
                self.stats.count("comparison_skipped_external_change_pending", 1);
                sent = false;
            }
            Ev::Sem { target, mode } => {
                if let Some(t) = self.sem.get(*target).cloned() {
                    if mode == "C17" {
                        crate::sem::check_c17(self, at, &t);
                    } else {
                        crate::sem::check_c18(self, at, &t);
                    }
                } else {
                    sent = false;
                }
            }
            Ev::Checkpoint => {
                self.stats.sim_time_ms += 1000;
                self.peer.idle();
                if self.peer.server.alive() {
                    self.compare_with_fresh(at, &[]);
                }
            }
        }
        if sent && matches!(ev, Ev::Folder { add: true, b: false } | Ev::FolderReadd { b: false }) {
            self.config_pending = false;
        }
        if sent && self.unreadable.is_empty() && matches!(ev, Ev::Open { .. } | Ev::Reopen { .. } | Ev::Change { .. } | Ev::Close { .. } | Ev::Folder { .. } | Ev::FolderReadd { .. }) {
            self.external_pending = false;
        }
        if sent {
            self.stats.sim_time_ms += 7;
            self.stats.interleaving.push_str(&format!("{}{}{};", ev_name(ev), stale_before as u8, self.peer.server.is_stale() as u8));
            let st = self.abstract_state();
            self.stats.states.push(st);
        }
        if self.violation.is_some() || self.discarded.is_some() {
            return;
        }
        if self.burst_left > 0 {
            // the server has not run: nothing to look at yet
            if sent || enqueued {
                self.burst_left -= 1;
                if self.burst_left == 0 {
                    self.stats.probe("burst_ran_to_its_full_length");
                    self.release(at, ev, &pre_client);
                }
            }
            return;
        }
        if sent && !self.pending_reqs.is_empty() && self.peer.server.alive() {
            self.stats.probe("request_answered_in_one_burst_with_the_next_notification");
            self.settle_pending();
            if self.violation.is_some() || self.discarded.is_some() {
                return;
            }
        }
        if !self.peer.server.alive() {
            self.attribute_death(at, ev, &pre_client);
            return;
        }
        if self.check_drift && sent && self.peer.real.is_none() {
            if let Some(d) = self.drift() {
                self.fail(at, "document-drift", "document-drift".into(), d);
            }
        }
    }

    /// Puts a request into the server's inbox without waiting for its answer. What the answer
    /// must be is settled now: that of a fresh server handed the texts of this moment. False
    /// if the request should take the ordinary path instead.
    fn pipeline_request(&mut self, kind: ReqKind, path: &str, pos: Pos, new_name: Option<&str>, at: usize) -> bool {
        let mut fresh = fresh_peer(self.world, &self.client);
        self.stats.evals += 1;
        if !fresh.server.alive() {
            return false; // the ordinary path attributes a refresh that dies everywhere
        }
        let expected = fresh.send_request(kind, path, pos, new_name);
        if !fresh.server.alive() {
            return false; // a handler that dies: the ordinary path reports it
        }
        let id = self.peer.enqueue_request(kind, path, pos, new_name);
        self.pending_reqs.push((id, kind, path.to_string(), pos, expected, at));
        self.stats.probe("request_pipelined");
        if self.pending_reqs.len() > 1 {
            self.stats.probe("several_requests_in_one_burst");
        }
        true
    }

    /// End of a burst: the server works off its inbox; every request in it must have been
    /// answered as of its place in the sequence, and the documents must have followed.
    pub fn release(&mut self, at: usize, ev: &Ev, pre_client: &ClientModel) {
        let was_burst = self.burst_left > 0 || self.peer.hold;
        self.burst_left = 0;
        self.peer.release();
        self.settle_pending();
        if self.violation.is_some() || self.discarded.is_some() {
            return;
        }
        if !self.peer.server.alive() {
            self.attribute_death(at, ev, pre_client);
            return;
        }
        if was_burst && self.check_drift && self.peer.real.is_none() {
            if let Some(d) = self.drift() {
                self.fail(at, "document-drift", "document-drift".into(), d);
            }
        }
    }

    /// Collects the answers to the pipelined requests and compares them.
    pub fn settle_pending(&mut self) {
        if self.pending_reqs.is_empty() {
            return;
        }
        for p in std::mem::take(&mut self.pending_reqs) {
            self.settle_one(p);
            if self.violation.is_some() || self.discarded.is_some() {
                return;
            }
        }
        self.peer.snapshot();
    }

    fn settle_one(&mut self, (id, kind, path, pos, expected, at): (i32, ReqKind, String, Pos, Option<Value>, usize)) {
        if !self.peer.server.alive() {
            return;
        }
        let a = self.peer.settle(id);
        if !self.peer.server.alive() {
            // the request was fine on a fresh server with the same texts
            let death = self.peer.server.death.clone().unwrap_or_default();
            self.fail(at, "history-server-died", death_signature(&death, Some(kind)), format!("pipelined {kind:?} at {path}:{pos:?}: {death} (a fresh server given the same texts answers)"));
            return;
        }
        self.stats.count("requests_compared", 1);
        self.stats.oracle_checks += 1;
        let (ca, cb) = (a.map(|v| canon_result(self.world, &v)), expected.map(|v| canon_result(self.world, &v)));
        if ca != cb {
            self.fail(
                at,
                "history-vs-fresh-request",
                format!("pipelined-request-answer-differs kind={kind:?}"),
                format!("{kind:?} at {path}:{pos:?}, sent without waiting and followed by a notification: history {ca:?}; a fresh server handed the texts of that moment {cb:?}"),
            );
        }
    }

    /// The closed rename loop; `on_edits` lets C18 inspect the edits.
    pub fn rename_loop(&mut self, at: usize, path: &str, pos: Pos, new_name: &str) -> Option<(Value, Value)> {
        let prep = self.peer.send_request(ReqKind::PrepareRename, path, pos, None)?;
        if !self.peer.server.alive() || prep.is_null() {
            return None;
        }
        self.stats.count("prepare_rename_offered", 1);
        let edits = self.peer.send_request(ReqKind::Rename, path, pos, Some(new_name))?;
        if !self.peer.server.alive() {
            return None;
        }
        self.stats.count("rename_answered", 1);
        // apply the WorkspaceEdit to the client's buffers, opening closed documents first
        if let Some(changes) = edits.get("changes").and_then(|c| c.as_object()) {
            let mut by_path: BTreeMap<String, Vec<(Pos, Pos, String)>> = BTreeMap::new();
            for (uri, es) in changes {
                let p = self.world.rel(uri);
                for e in es.as_array().cloned().unwrap_or_default() {
                    let r = &e["range"];
                    let s = Pos {
                        line: r["start"]["line"].as_u64().unwrap_or(0) as u32,
                        character: r["start"]["character"].as_u64().unwrap_or(0) as u32,
                    };
                    let en = Pos {
                        line: r["end"]["line"].as_u64().unwrap_or(0) as u32,
                        character: r["end"]["character"].as_u64().unwrap_or(0) as u32,
                    };
                    by_path.entry(p.clone()).or_default().push((s, en, e["newText"].as_str().unwrap_or("").to_string()));
                }
            }
            for (p, mut es) in by_path {
                if !self.client.open.contains_key(&p) {
                    let Some(t) = self.client.disk.get(&p).cloned() else { continue };
                    self.stats.probe("rename_across_unopened_module");
                    self.apply(at, &Ev::Open { path: p.clone(), text: t });
                }
                // as an editor does: all edits refer to the original text; apply back to front
                es.sort();
                es.reverse();
                let changes: Vec<Chg> = es
                    .into_iter()
                    .map(|(s, e, t)| Chg {
                        range: Some((s, e)),
                        text: t,
                    })
                    .collect();
                self.apply(at, &Ev::Change { path: p, changes });
                if self.violation.is_some() || self.discarded.is_some() {
                    return None;
                }
            }
        }
        Some((prep, edits))
    }
}

/// All positions of a change notification are meaningful in the text they apply to.
fn changes_legal(buf: Option<&str>, changes: &[Chg]) -> bool {
    let Some(buf) = buf else { return true };
    let mut t = buf.to_string();
    for c in changes {
        if let Some((s, e)) = c.range {
            if !position::representable(&t, s) || !position::representable(&t, e) {
                return false;
            }
        }
        position::apply_change(&mut t, c.range, &c.text);
    }
    true
}

/// Percent-decoding of a workspace-relative URI (for probes only).
fn decode(rel: &str) -> String {
    Url::parse(&format!("file:///{rel}")).ok().and_then(|u| u.to_file_path().ok()).and_then(|p| p.to_str().map(|s| s.trim_start_matches('/').to_string())).unwrap_or_else(|| rel.to_string())
}

pub fn ev_name(ev: &Ev) -> &'static str {
    match ev {
        Ev::Open { .. } => "O",
        Ev::Change { .. } => "C",
        Ev::Close { .. } => "X",
        Ev::Save { .. } => "S",
        Ev::Idle => "T",
        Ev::Burst { .. } => "B",
        Ev::Noise { .. } => "N",
        Ev::Reopen { .. } => "Oo",
        Ev::ConfigOnDisk { .. } => "Cf",
        Ev::Request { kind, .. } => match kind {
            ReqKind::Definition => "Qd",
            ReqKind::References => "Qr",
            ReqKind::PrepareRename => "Qp",
            ReqKind::Rename => "Qn",
        },
        Ev::RenameLoop { .. } => "R",
        Ev::Folder { .. } => "F",
        Ev::FolderReadd { .. } => "Fr",
        Ev::DiskDelete { .. } => "D-",
        Ev::DiskRestore { .. } => "D+",
        Ev::Checkpoint => "K",
        Ev::Sem { .. } => "M",
    }
}

/// A stable name for *where* the server died (panic message sans values; file:line is
/// not available without a backtrace, so the message class is used).
pub fn death_signature(death: &str, kind: Option<ReqKind>) -> String {
    let class: String = death.chars().filter(|c| !c.is_ascii_digit()).take(60).collect();
    match kind {
        Some(k) => format!("server-died request={k:?} cause={class}"),
        None => format!("server-died cause={class}"),
    }
}

pub struct Outcome {
    pub transcript: Vec<String>,
    pub violation: Option<Violation>,
    pub discarded: Option<String>,
    pub stats: Stats,
    pub digest: u64,
    pub final_client: ClientModel,
}

/// Executes a scenario on a fresh thread under the scenario's hash seed.
pub fn run_scenario(scn: &Scenario, hook: Option<fn(&mut Exec, usize, &Ev)>) -> Outcome {
    let scn2 = scn.clone();
    let r = crate::hashseed::on_fresh_thread(scn.hash_seed, 256, move || {
        let world = World::new();
        let mut ex = Exec::new(&world, &scn2);
        let ev_hb = std::env::var("OALSIM_HEARTBEAT").ok().map(|p| format!("{p}.ev"));
        for (i, ev) in scn2.events.iter().enumerate() {
            if let Some(p) = &ev_hb {
                let _ = std::fs::write(p, format!("{i}"));
            }
            if let Some(h) = hook {
                h(&mut ex, i, ev);
            }
            ex.apply(i, ev);
            if ex.violation.is_some() || ex.discarded.is_some() {
                break;
            }
        }
        if ex.violation.is_none() && ex.discarded.is_none() {
            let n = scn2.events.len();
            let pre = ex.client.clone();
            ex.release(n, &Ev::Checkpoint, &pre);
        }
        let digest = digest64(ex.peer.log.as_bytes());
        if let Ok(p) = std::env::var("OALSIM_DUMP_LOG") {
            let _ = std::fs::write(p, &ex.peer.log);
        }
        Outcome {
            transcript: ex.peer.transcript.clone(),
            violation: ex.violation.clone(),
            discarded: ex.discarded.clone(),
            stats: ex.stats.clone(),
            digest,
            final_client: ex.client.clone(),
        }
    });
    match r {
        Ok(o) => o,
        Err(p) => Outcome {
            transcript: Vec::new(),
            violation: Some(Violation {
                oracle: "harness-panic".into(),
                detail: p.clone(),
                signature: format!("harness-panic {}", p.chars().take(40).collect::<String>()),
                at: 0,
            }),
            discarded: None,
            stats: Stats::default(),
            digest: 0,
            final_client: ClientModel::default(),
        },
    }
}

/// Attribution probe (run in its own process by the driver after a worker died during
/// event `k` of `scn`): replays the client model only, then hands the texts reached
/// *after* event k to a fresh server and lets it refresh. Returns the fresh server's
/// cause of death, if it died in a catchable way; a stack overflow kills the process.
pub fn probe(scn: &Scenario, k: usize) -> Option<String> {
    let scn2 = scn.clone();
    crate::hashseed::on_fresh_thread(scn.hash_seed, 256, move || {
        let world = World::new();
        world.reset(&scn2.config, &scn2.disk);
        world.plus_encoded.set(scn2.uri_plus_encoded);
        if scn2.folder_b {
            world.write("fb/oal.toml", scn2.config_b.as_deref().unwrap_or(&scn2.config));
        }
        let mut client = ClientModel {
            disk: scn2.disk.clone(),
            open: BTreeMap::new(),
            folder_present: true,
            folder_b_present: scn2.folder_b,
            deleted: BTreeMap::new(),
        };
        let mut main_now = "main.oal".to_string();
        for ev in scn2.events.iter().take(k + 1) {
            match ev {
                Ev::Open { path, text } => {
                    client.open.entry(path.clone()).or_insert((text.clone(), 1));
                }
                Ev::Reopen { path, text } => {
                    if client.open.contains_key(path) {
                        client.open.insert(path.clone(), (text.clone(), 1));
                    }
                }
                Ev::Change { path, changes } => {
                    if let Some((t, _)) = client.open.get_mut(path) {
                        for c in changes {
                            position::apply_change(t, c.range, &c.text);
                        }
                    }
                }
                Ev::Close { path } => {
                    client.open.remove(path);
                }
                Ev::Save { path } => {
                    if client.disk.contains_key(path) {
                        if let Some((t, _)) = client.open.get(path) {
                            client.disk.insert(path.clone(), t.clone());
                            world.write(path, t);
                        }
                    }
                }
                Ev::Folder { add, b } => {
                    if *b {
                        client.folder_b_present = *add
                    } else {
                        client.folder_present = *add
                    }
                }
                Ev::ConfigOnDisk { main } => {
                    if legal_path(main) && client.disk.contains_key(main) {
                        main_now = main.clone();
                        world.write("oal.toml", &format!("[api]\nmain = \"{main}\"\ntarget = \"out.yaml\"\n"));
                    }
                }
                Ev::DiskDelete { path, how } => {
                    if path != "main.oal" && path != "fb/main.oal" && *path != main_now && !client.open.contains_key(path) {
                        if let Some(t) = client.disk.remove(path) {
                            client.deleted.insert(path.clone(), t);
                            if *how == 0 {
                                world.remove(path);
                            } else {
                                world.make_unreadable(path, *how);
                            }
                        }
                    }
                }
                Ev::DiskRestore { path } => {
                    if !client.disk.contains_key(path) {
                        if let Some(t) = client.deleted.remove(path) {
                            world.write(path, &t);
                            client.disk.insert(path.clone(), t);
                        }
                    }
                }
                _ => {}
            }
        }
        if let Ok(p) = std::env::var("OALSIM_PROBE_DUMP") {
            let _ = std::fs::write(p, serde_json::to_string_pretty(&client.effective_all()).unwrap_or_default());
        }
        let fresh = fresh_peer(&world, &client);
        if fresh.server.death.is_some() || client.deleted.is_empty() {
            return fresh.server.death.clone();
        }
        drop(fresh);
        // modules that are gone or unreadable at that moment: the history server may still work
        // with what it read of them before; are the *texts* to blame, then?
        for (p, t) in client.deleted.clone() {
            world.write(&p, &t);
            client.disk.insert(p, t);
        }
        let fresh = fresh_peer(&world, &client);
        fresh.server.death.clone()
    })
    .unwrap_or_else(|p| Some(format!("panic: {p}")))
}

pub const CONFIG: &str = "[api]\nmain = \"main.oal\"\ntarget = \"out.yaml\"\n";

#[allow(dead_code)]
pub fn response_of(r: Response) -> Value {
    r.result.unwrap_or(Value::Null)
}
