//! oalsim — deterministic simulation workers for oxlip-lang/oal.
//! All parameters come from environment variables: the code under test
//! (`Config::new`) parses the *process* argv with clap, so argv stays empty.

mod c15;
mod cli_sim;
mod env_sim;
mod gen;
mod hashseed;
mod hist;
mod loader_sim;
mod lsp_min;
mod lsp_server;
mod lsp_sim;
mod pipeline;
mod position;
mod prng;
mod realproc;
mod report;
mod sem;

use report::{Aggregate, Found, Report};
use serde_json::{json, Value};

fn env(k: &str) -> Option<String> {
    std::env::var(k).ok().filter(|s| !s.is_empty())
}

fn env_u64(k: &str, d: u64) -> u64 {
    env(k).and_then(|s| s.parse().ok()).unwrap_or(d)
}

fn run_one(prop: &str, seed: u64, run: u64) -> Report {
    if env("OALSIM_VALIDATE").is_some() {
        return match prop {
            "C15" => c15::validate("C15", hist::Sem::None, seed, run),
            "C17" => c15::validate("C17", hist::Sem::C17, seed, run),
            "C18" => c15::validate("C18", hist::Sem::C18, seed, run),
            _ => Report::default(),
        };
    }
    match prop {
        "C10" => loader_sim::run(seed, run),
        "C06" => env_sim::run(seed, run),
        "C13" => {
            let hs = prng::Rng::stream(seed, "C13", run, "thread").next_u64();
            hashseed::on_fresh_thread(hs, 64, move || cli_sim::run(seed, run)).unwrap_or_else(|p| {
                eprintln!("oalsim: C13 harness panic: {p}");
                std::process::exit(2)
            })
        }
        "C15" => c15::run(seed, run),
        "C17" => c15::run_prop("C17", hist::Sem::C17, seed, run),
        "C18" => c15::run_prop("C18", hist::Sem::C18, seed, run),
        _ => {
            eprintln!("oalsim: unknown property {prop}");
            std::process::exit(2)
        }
    }
}

fn replay_one(prop: &str, doc: &Value) -> Result<Option<Found>, String> {
    match prop {
        "C10" => loader_sim::replay(doc),
        "C06" => env_sim::replay(doc),
        "C13" => cli_sim::replay(doc),
        "C15" => c15::replay(doc),
        "C17" => c15::replay_prop("C17", doc),
        "C18" => c15::replay_prop("C18", doc),
        _ => Err(format!("unknown property {prop}")),
    }
}

/// Gives this worker a private tmpfs at a *fixed* path (own mount namespace), so that
/// every locator - and with it every HashMap order and implicit component name that
/// depends on the absolute location - is identical in every worker and in every replay.
/// Falls back to the per-worker scratch directory when namespaces are unavailable.
fn enter_private_ws() -> bool {
    const WS: &str = "/dev/shm/oalsim-ws";
    if env("OALSIM_NO_NAMESPACE").is_some() {
        return false;
    }
    unsafe {
        if libc::unshare(libc::CLONE_NEWNS) != 0 {
            return false;
        }
        let root = std::ffi::CString::new("/").unwrap();
        let none = std::ffi::CString::new("none").unwrap();
        if libc::mount(none.as_ptr(), root.as_ptr(), std::ptr::null(), libc::MS_REC | libc::MS_PRIVATE, std::ptr::null()) != 0 {
            return false;
        }
        let _ = std::fs::create_dir_all(WS);
        let ws = std::ffi::CString::new(WS).unwrap();
        let tmpfs = std::ffi::CString::new("tmpfs").unwrap();
        if libc::mount(tmpfs.as_ptr(), ws.as_ptr(), tmpfs.as_ptr(), 0, std::ptr::null()) != 0 {
            return false;
        }
    }
    std::env::set_var("OALSIM_SCRATCH", WS);
    true
}

fn main() {
    let fixed_ws = enter_private_ws();
    // Panics of the code under test are caught and reported by the simulators;
    // keep stderr quiet unless asked.
    if env("OALSIM_PANIC_TRACE").is_none() {
        std::panic::set_hook(Box::new(|_| {}));
    }
    let prop = env("OALSIM_PROP").unwrap_or_else(|| {
        eprintln!("oalsim: OALSIM_PROP not set");
        std::process::exit(2)
    });
    if prop == "GENSTATS" {
        std::thread::Builder::new().stack_size(64 << 20).spawn(genstats).unwrap().join().unwrap();
        return;
    }
    if let Some(k) = env("OALSIM_PROBE_EVENT") {
        // Attribution probe: does a *fresh* server survive the texts reached at event k?
        let seed = env_u64("OALSIM_SEED", 1);
        let run = env_u64("OALSIM_PROBE_RUN", 0);
        let k: usize = k.parse().unwrap_or(0);
        let scn = match prop.as_str() {
            "C15" => c15::scenario_of("C15", hist::Sem::None, seed, run),
            "C17" => c15::scenario_of("C17", hist::Sem::C17, seed, run),
            "C18" => c15::scenario_of("C18", hist::Sem::C18, seed, run),
            _ => std::process::exit(2),
        };
        if let Some(p) = env("OALSIM_SCENARIO_DUMP") {
            let _ = std::fs::write(p, serde_json::to_string(&scn).unwrap_or_default());
        }
        match lsp_sim::probe(&scn, k) {
            None => {
                println!("fresh-alive");
                std::process::exit(0)
            }
            Some(d) => {
                println!("fresh-dead {d}");
                std::process::exit(3)
            }
        }
    }
    if let Some(path) = env("OALSIM_REPLAY") {
        let text = std::fs::read_to_string(&path).unwrap_or_else(|e| {
            eprintln!("oalsim: cannot read {path}: {e}");
            std::process::exit(2)
        });
        let doc: Value = serde_json::from_str(&text).unwrap_or_else(|e| {
            eprintln!("oalsim: bad replay file: {e}");
            std::process::exit(2)
        });
        let scn = &doc["found"]["scenario"];
        let res = if let Some(sr) = scn.get("seed_replay") {
            // Un-minimised replay: re-execute run (seed, index) exactly.
            let r = run_one(&prop, sr["seed"].as_u64().unwrap_or(1), sr["run"].as_u64().unwrap_or(0));
            Ok(r.violation)
        } else if doc["found"]["oracle"].as_str() == Some("simulated-vs-real") {
            c15::replay_sim_vs_real(&prop, scn)
        } else {
            replay_one(&prop, scn)
        };
        match res {
            Err(e) => {
                eprintln!("oalsim: replay error: {e}");
                std::process::exit(2)
            }
            Ok(None) => {
                println!("{}", json!({"reproduced": false}));
                std::process::exit(0)
            }
            Ok(Some(f)) => {
                println!("{}", json!({"reproduced": true, "signature": f.signature, "oracle": f.oracle, "detail": f.detail}));
                std::process::exit(1)
            }
        }
    }
    let seed = env_u64("OALSIM_SEED", 1);
    let from = env_u64("OALSIM_FROM", 0);
    let to = env_u64("OALSIM_TO", 0);
    let stride = env_u64("OALSIM_STRIDE", 1).max(1);
    let offset = env_u64("OALSIM_OFFSET", 0);
    let out = env("OALSIM_OUT").unwrap_or_else(|| "/dev/stdout".into());
    let hb = env("OALSIM_HEARTBEAT");
    let mut agg = Aggregate {
        keep_run_digests: env("OALSIM_RUN_DIGESTS").is_some(),
        ..Default::default()
    };
    let mut i = from + ((offset + stride - (from % stride)) % stride);
    while i < to {
        if let Some(hb) = &hb {
            let _ = std::fs::write(hb, format!("{prop} {i}\n"));
        }
        let r = run_one(&prop, seed, i);
        agg.add(i, r);
        i += stride;
    }
    let mut doc = agg.to_json();
    doc["fixed_ws"] = json!(fixed_ws);
    std::fs::write(&out, serde_json::to_string(&doc).unwrap()).unwrap_or_else(|e| {
        eprintln!("oalsim: cannot write {out}: {e}");
        std::process::exit(2)
    });
}

/// Development aid: acceptance statistics of the program generator.
fn genstats() {
    use std::collections::BTreeMap;
    let seed = env_u64("OALSIM_SEED", 1);
    let n = env_u64("OALSIM_TO", 1000);
    let show = env_u64("OALSIM_SHOW", 3);
    let mut ok = 0;
    let mut fails: BTreeMap<String, (u64, String)> = BTreeMap::new();
    let mut feats: BTreeMap<&'static str, u64> = BTreeMap::new();
    for i in env_u64("OALSIM_FROM", 0)..n {
        if env("OALSIM_TRACE").is_some() { eprintln!("run {i}"); }
        let mut rng = prng::Rng::stream(seed, "GEN", i, "workload");
        let cfg = gen::GenCfg::default();
        let ast = gen::generate(&mut rng, &cfg);
        let layout = gen::Layout { seed: i, multibyte: (i % 3) as u8, crlf: vec![i % 2 == 0; 8], lone_cr: i % 7 == 3, comments: true, shape: (i % 5).min(2) as u8 % 3 };
        let mods = gen::render(&ast, &layout);
        let files: BTreeMap<String, String> = mods.iter().map(|m| (m.path.clone(), m.text.clone())).collect();
        if env("OALSIM_DUMP").is_some() { for m in &mods { eprintln!("--- {}\n{}", m.path, m.text); } }
        match pipeline::compile_to_yaml("file:///w/", &files, "main.oal") {
            Ok(_) => {
                ok += 1;
                for f in ast.features.iter() { *feats.entry(f).or_default() += 1; }
                if i < show { for m in &mods { println!("--- {} (run {i})\n{}", m.path, m.text); } }
            }
            Err(f) => {
                let key = format!("{:?}: {}", f.phase, f.message.chars().take(80).collect::<String>());
                let e = fails.entry(key).or_insert((0, String::new()));
                e.0 += 1;
                if e.1.is_empty() {
                    e.1 = mods.iter().map(|m| format!("--- {}\n{}\n", m.path, m.text)).collect();
                }
            }
        }
    }
    println!("accepted {ok}/{n}");
    for (k, (c, ex)) in fails.iter() {
        println!("FAIL x{c}: {k}\n{ex}");
    }
    println!("features: {feats:?}");
}
