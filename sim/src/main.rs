//! oalsim — deterministic simulation workers for oxlip-lang/oal.
//! All parameters come from environment variables: the code under test
//! (`Config::new`) parses the *process* argv with clap, so argv stays empty.

mod hashseed;
mod loader_sim;
mod prng;
mod report;

use report::{Aggregate, Found, Report};
use serde_json::{json, Value};

fn env(k: &str) -> Option<String> {
    std::env::var(k).ok().filter(|s| !s.is_empty())
}

fn env_u64(k: &str, d: u64) -> u64 {
    env(k).and_then(|s| s.parse().ok()).unwrap_or(d)
}

fn run_one(prop: &str, seed: u64, run: u64) -> Report {
    match prop {
        "C10" => loader_sim::run(seed, run),
        _ => {
            eprintln!("oalsim: unknown property {prop}");
            std::process::exit(2)
        }
    }
}

fn replay_one(prop: &str, doc: &Value) -> Result<Option<Found>, String> {
    match prop {
        "C10" => loader_sim::replay(doc),
        _ => Err(format!("unknown property {prop}")),
    }
}

fn main() {
    // Panics of the code under test are caught and reported by the simulators;
    // keep stderr quiet unless asked.
    if env("OALSIM_PANIC_TRACE").is_none() {
        std::panic::set_hook(Box::new(|_| {}));
    }
    let prop = env("OALSIM_PROP").unwrap_or_else(|| {
        eprintln!("oalsim: OALSIM_PROP not set");
        std::process::exit(2)
    });
    if let Some(path) = env("OALSIM_REPLAY") {
        let text = std::fs::read_to_string(&path).unwrap_or_else(|e| {
            eprintln!("oalsim: cannot read {path}: {e}");
            std::process::exit(2)
        });
        let doc: Value = serde_json::from_str(&text).unwrap_or_else(|e| {
            eprintln!("oalsim: bad replay file: {e}");
            std::process::exit(2)
        });
        let scn = &doc["found"]["scenario"];
        let res = if let Some(sr) = scn.get("seed_replay") {
            // Un-minimised replay: re-execute run (seed, index) exactly.
            let r = run_one(&prop, sr["seed"].as_u64().unwrap_or(1), sr["run"].as_u64().unwrap_or(0));
            Ok(r.violation)
        } else {
            replay_one(&prop, scn)
        };
        match res {
            Err(e) => {
                eprintln!("oalsim: replay error: {e}");
                std::process::exit(2)
            }
            Ok(None) => {
                println!("{}", json!({"reproduced": false}));
                std::process::exit(0)
            }
            Ok(Some(f)) => {
                println!("{}", json!({"reproduced": true, "signature": f.signature, "oracle": f.oracle, "detail": f.detail}));
                std::process::exit(1)
            }
        }
    }
    let seed = env_u64("OALSIM_SEED", 1);
    let from = env_u64("OALSIM_FROM", 0);
    let to = env_u64("OALSIM_TO", 0);
    let stride = env_u64("OALSIM_STRIDE", 1).max(1);
    let offset = env_u64("OALSIM_OFFSET", 0);
    let out = env("OALSIM_OUT").unwrap_or_else(|| "/dev/stdout".into());
    let hb = env("OALSIM_HEARTBEAT");
    let mut agg = Aggregate {
        keep_run_digests: env("OALSIM_RUN_DIGESTS").is_some(),
        ..Default::default()
    };
    let mut i = from + ((offset + stride - (from % stride)) % stride);
    while i < to {
        if let Some(hb) = &hb {
            let _ = std::fs::write(hb, format!("{prop} {i}\n"));
        }
        let r = run_one(&prop, seed, i);
        agg.add(i, r);
        i += stride;
    }
    let doc = agg.to_json();
    std::fs::write(&out, serde_json::to_string(&doc).unwrap()).unwrap_or_else(|e| {
        eprintln!("oalsim: cannot write {out}: {e}");
        std::process::exit(2)
    });
}
