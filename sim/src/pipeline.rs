//! The whole compiler pipeline over an in-memory file map (seam S5), used as
//! workload filter ("does the real compiler accept this?") and by the oracles
//! that compare documents.

use oal_compiler::errors::Error;
use oal_compiler::module::{Loader, ModuleSet};
use oal_compiler::tree::Tree;
use oal_model::locator::Locator;
use std::collections::BTreeMap;

#[derive(Debug, Clone, PartialEq)]
pub enum Phase {
    Load,
    Syntax,
    Compile,
    Eval,
    Emit,
    Panic,
}

#[derive(Debug, Clone)]
pub struct Failure {
    pub phase: Phase,
    pub message: String,
}

pub enum MemErr {
    Compiler(Error),
    Syntax(String),
    Io(String),
}

impl From<Error> for MemErr {
    fn from(e: Error) -> Self {
        MemErr::Compiler(e)
    }
}

pub struct MemLoader<'a> {
    pub base: &'a str,
    pub files: &'a BTreeMap<String, String>,
}

impl MemLoader<'_> {
    /// The path (relative to the base, percent-encoding decoded) a locator denotes.
    fn rel(&self, loc: &Locator) -> Option<String> {
        let base = url::Url::parse(self.base).ok()?.to_file_path().ok()?;
        let p = loc.url().to_file_path().ok()?;
        // as a file system would: repeated separators and "." segments do not matter
        let rel = p.strip_prefix(&base).ok()?;
        let parts: Vec<String> = rel.components().filter_map(|c| match c {
            std::path::Component::Normal(s) => s.to_str().map(|x| x.to_string()),
            _ => None,
        }).collect();
        Some(parts.join("/"))
    }
}

impl Loader<MemErr> for MemLoader<'_> {
    fn is_valid(&mut self, loc: &Locator) -> bool {
        self.rel(loc).map(|p| self.files.contains_key(&p)).unwrap_or(false)
    }
    fn load(&mut self, loc: &Locator) -> Result<String, MemErr> {
        self.rel(loc)
            .and_then(|p| self.files.get(&p))
            .cloned()
            .ok_or_else(|| MemErr::Io(format!("no such file {loc}")))
    }
    fn parse(&mut self, loc: Locator, input: String) -> Result<Tree, MemErr> {
        let (tree, errs) = oal_syntax::parse(loc, input);
        if let Some(e) = errs.last() {
            return Err(MemErr::Syntax(e.to_string()));
        }
        tree.ok_or_else(|| MemErr::Syntax("no tree".into()))
    }
    fn compile(&mut self, mods: &ModuleSet, loc: &Locator) -> Result<(), MemErr> {
        oal_compiler::compile::compile(mods, loc).map_err(MemErr::Compiler)
    }
}

/// Compiles `main` (a path relative to `base`, which must end in '/') to YAML.
pub fn compile_to_yaml(base: &str, files: &BTreeMap<String, String>, main: &str) -> Result<String, Failure> {
    let r = std::panic::catch_unwind(std::panic::AssertUnwindSafe(|| compile_inner(base, files, main)));
    match r {
        Ok(x) => x,
        Err(p) => Err(Failure {
            phase: Phase::Panic,
            message: crate::hashseed::panic_message(&p),
        }),
    }
}

fn compile_inner(base: &str, files: &BTreeMap<String, String>, main: &str) -> Result<String, Failure> {
    let loc = Locator::try_from(format!("{base}{main}").as_str()).map_err(|e| Failure {
        phase: Phase::Load,
        message: e.to_string(),
    })?;
    let mut loader = MemLoader { base, files };
    let mods = oal_compiler::module::load(&mut loader, &loc).map_err(|e| match e {
        MemErr::Compiler(e) => Failure {
            phase: match e.kind {
                oal_compiler::errors::Kind::InvalidModule(_) | oal_compiler::errors::Kind::CycleDetected => Phase::Load,
                _ => Phase::Compile,
            },
            message: e.to_string(),
        },
        MemErr::Syntax(s) => Failure {
            phase: Phase::Syntax,
            message: s,
        },
        MemErr::Io(s) => Failure {
            phase: Phase::Load,
            message: s,
        },
    })?;
    let spec = oal_compiler::eval::eval(&mods).map_err(|e| Failure {
        phase: Phase::Eval,
        message: e.to_string(),
    })?;
    let api = oal_openapi::Builder::new(spec).into_openapi();
    serde_yaml::to_string(&api).map_err(|e| Failure {
        phase: Phase::Emit,
        message: e.to_string(),
    })
}

/// Replaces implicit component names (`hash-<sha256 of location+node>`), which
/// legitimately depend on the absolute location, by their order of first appearance.
pub fn canonicalise_hash_names(yaml: &str) -> String {
    let mut names: Vec<String> = Vec::new();
    let mut out = String::with_capacity(yaml.len());
    let b = yaml.as_bytes();
    let mut i = 0;
    while i < b.len() {
        if yaml[i..].starts_with("hash-") {
            let mut j = i + 5;
            while j < b.len() && b[j].is_ascii_hexdigit() {
                j += 1;
            }
            if j - (i + 5) == 64 {
                let name = &yaml[i..j];
                let k = match names.iter().position(|n| n == name) {
                    Some(k) => k,
                    None => {
                        names.push(name.to_string());
                        names.len() - 1
                    }
                };
                out.push_str(&format!("hash-#{k}"));
                i = j;
                continue;
            }
        }
        let ch = yaml[i..].chars().next().unwrap();
        out.push(ch);
        i += ch.len_utf8();
    }
    out
}
