//! Reference position arithmetic written from the LSP specification (UTF-16
//! code units, lines ended by "\n", "\r\n" or "\r"), independent of
//! `oal-client/src/lsp/unicode.rs`. Used by the client model to express edits
//! and to interpret ranges coming back. The protocol's line ends are "\n",
//! "\r\n" and a '\r' that no '\n' follows.

#[derive(Clone, Copy, Debug, PartialEq, Eq, PartialOrd, Ord, serde::Serialize, serde::Deserialize)]
pub struct Pos {
    pub line: u32,
    pub character: u32,
}

/// Byte offsets at which each line starts.
pub fn line_starts(text: &str) -> Vec<usize> {
    let mut v = vec![0];
    let bytes = text.as_bytes();
    for (i, b) in bytes.iter().enumerate() {
        if *b == b'\n' || (*b == b'\r' && bytes.get(i + 1) != Some(&b'\n')) {
            v.push(i + 1);
        }
    }
    v
}

/// End of the line's content (before its "\n", "\r\n" or "\r").
pub fn line_content_end(text: &str, starts: &[usize], line: usize) -> usize {
    if line + 1 >= starts.len() {
        return text.len();
    }
    let b = text.as_bytes();
    let end = starts[line + 1] - 1;
    if b[end] == b'\n' && end > starts[line] && b[end - 1] == b'\r' {
        end - 1
    } else {
        end
    }
}

/// Byte offset (on a char boundary) → position.
pub fn to_pos(text: &str, offset: usize) -> Pos {
    let starts = line_starts(text);
    let line = match starts.binary_search(&offset) {
        Ok(i) => i,
        Err(i) => i - 1,
    };
    let col: usize = text[starts[line]..offset].chars().map(|c| c.len_utf16()).sum();
    Pos {
        line: line as u32,
        character: col as u32,
    }
}

/// Position → byte offset, clamping as the protocol requires: a character beyond
/// the line's length means the line's end; a line beyond the last means the end of the text.
/// A position inside a surrogate pair is rounded down to the character's start.
pub fn to_offset(text: &str, pos: Pos) -> usize {
    let starts = line_starts(text);
    let line = pos.line as usize;
    if line >= starts.len() {
        return text.len();
    }
    let end = line_content_end(text, &starts, line);
    let mut col = 0u32;
    let mut off = starts[line];
    for c in text[starts[line]..end].chars() {
        if col + c.len_utf16() as u32 > pos.character {
            break;
        }
        col += c.len_utf16() as u32;
        off += c.len_utf8();
    }
    off
}

/// False iff `pos` points inside a surrogate pair (outside the client envelope:
/// the protocol gives such a position no meaning). Positions beyond the end of a
/// line or of the text are fine (they clamp).
pub fn representable(text: &str, pos: Pos) -> bool {
    let starts = line_starts(text);
    let line = pos.line as usize;
    if line >= starts.len() {
        return true;
    }
    let end = line_content_end(text, &starts, line);
    let mut col = 0u32;
    for c in text[starts[line]..end].chars() {
        if col == pos.character {
            return true;
        }
        if col > pos.character {
            return false;
        }
        col += c.len_utf16() as u32;
    }
    col <= pos.character || col == pos.character
}

/// Applies one LSP content change to `text`.
pub fn apply_change(text: &mut String, range: Option<(Pos, Pos)>, new: &str) {
    match range {
        None => *text = new.to_string(),
        Some((s, e)) => {
            let a = to_offset(text, s);
            let b = to_offset(text, e).max(a);
            text.replace_range(a..b, new);
        }
    }
}

#[cfg(test)]
mod tests {
    use super::*;
    #[test]
    fn roundtrip() {
        let t = "hé\r\n😉x\n\nen\rd\r\r\nz";
        for (i, _) in t.char_indices().chain(std::iter::once((t.len(), ' '))) {
            if i > 0 && t.as_bytes()[i - 1] == b'\r' {
                continue;
            }
            assert_eq!(to_offset(t, to_pos(t, i)), i, "offset {i}");
        }
        assert_eq!(to_offset(t, Pos { line: 0, character: 99 }), 3);
        assert_eq!(to_offset(t, Pos { line: 9, character: 0 }), t.len());
    }
}
