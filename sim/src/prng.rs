//! One integer decides everything: xoshiro256** seeded through SplitMix64.
//! Streams are derived by hashing (seed, property, run index, stream label) so
//! that adding a draw to one stream never shifts another, and so that the
//! result of run *i* does not depend on which worker executed it.

#[derive(Clone, Debug)]
pub struct Rng {
    s: [u64; 4],
}

fn splitmix(x: &mut u64) -> u64 {
    *x = x.wrapping_add(0x9E3779B97F4A7C15);
    let mut z = *x;
    z = (z ^ (z >> 30)).wrapping_mul(0xBF58476D1CE4E5B9);
    z = (z ^ (z >> 27)).wrapping_mul(0x94D049BB133111EB);
    z ^ (z >> 31)
}

/// FNV-1a style mixing of a label into a 64-bit state (no std hasher: those are seeded).
pub fn mix_str(mut h: u64, s: &str) -> u64 {
    for b in s.bytes() {
        h ^= b as u64;
        h = h.wrapping_mul(0x100000001b3);
    }
    let mut x = h;
    splitmix(&mut x)
}

pub fn mix_u64(h: u64, v: u64) -> u64 {
    let mut x = h ^ v.wrapping_mul(0x9E3779B97F4A7C15);
    splitmix(&mut x)
}

impl Rng {
    pub fn from_u64(seed: u64) -> Rng {
        let mut x = seed;
        let s = [
            splitmix(&mut x),
            splitmix(&mut x),
            splitmix(&mut x),
            splitmix(&mut x),
        ];
        Rng { s }
    }

    /// The stream for (base seed, property, run index, label).
    pub fn stream(seed: u64, prop: &str, run: u64, label: &str) -> Rng {
        let h = mix_str(mix_u64(mix_str(mix_u64(0xcbf29ce484222325, seed), prop), run), label);
        Rng::from_u64(h)
    }

    /// A sub-stream that does not disturb `self`'s future draws beyond one value.
    pub fn fork(&mut self, label: &str) -> Rng {
        let v = self.next_u64();
        Rng::from_u64(mix_str(v, label))
    }

    pub fn next_u64(&mut self) -> u64 {
        let result = self.s[1].wrapping_mul(5).rotate_left(7).wrapping_mul(9);
        let t = self.s[1] << 17;
        self.s[2] ^= self.s[0];
        self.s[3] ^= self.s[1];
        self.s[1] ^= self.s[2];
        self.s[0] ^= self.s[3];
        self.s[2] ^= t;
        self.s[3] = self.s[3].rotate_left(45);
        result
    }

    /// Uniform in 0..n (n > 0).
    pub fn below(&mut self, n: usize) -> usize {
        debug_assert!(n > 0);
        ((self.next_u64() >> 11) % (n as u64)) as usize
    }

    /// Uniform in lo..=hi.
    pub fn range(&mut self, lo: usize, hi: usize) -> usize {
        lo + self.below(hi - lo + 1)
    }

    /// True with probability num/den.
    pub fn chance(&mut self, num: usize, den: usize) -> bool {
        self.below(den) < num
    }

    pub fn pick<'a, T>(&mut self, xs: &'a [T]) -> &'a T {
        &xs[self.below(xs.len())]
    }

    pub fn shuffle<T>(&mut self, xs: &mut [T]) {
        for i in (1..xs.len()).rev() {
            let j = self.below(i + 1);
            xs.swap(i, j);
        }
    }

    /// Weighted choice: returns the index.
    pub fn weighted(&mut self, w: &[usize]) -> usize {
        let total: usize = w.iter().sum();
        let mut x = self.below(total.max(1));
        for (i, wi) in w.iter().enumerate() {
            if x < *wi {
                return i;
            }
            x -= wi;
        }
        w.len() - 1
    }
}

/// Stable 64-bit digest of a byte string (for event-log digests and distinct counting).
pub fn digest64(bytes: &[u8]) -> u64 {
    let mut h: u64 = 0xcbf29ce484222325;
    for b in bytes {
        h ^= *b as u64;
        h = h.wrapping_mul(0x100000001b3);
    }
    let mut x = h;
    splitmix(&mut x)
}
