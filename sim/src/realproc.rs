//! The *real* `oal-lsp` binary over stdio pipes with Content-Length framing —
//! used by the thorough tier to validate recorded histories against the shipped
//! process (transport threads, initialize handshake and all).

use serde_json::{json, Value};
use std::io::{BufRead, BufReader, Write};
use std::process::{Child, ChildStdin, Command, Stdio};
use std::sync::mpsc::{channel, Receiver};
use std::time::Duration;

pub struct RealProc {
    child: Child,
    stdin: ChildStdin,
    rx: Receiver<Option<Value>>,
    pub dead: Option<String>,
}

fn read_message(r: &mut impl BufRead) -> Option<Value> {
    let mut len = None;
    loop {
        let mut line = String::new();
        if r.read_line(&mut line).ok()? == 0 {
            return None;
        }
        let l = line.trim();
        if l.is_empty() {
            break;
        }
        if let Some(v) = l.to_ascii_lowercase().strip_prefix("content-length:") {
            len = v.trim().parse::<usize>().ok();
        }
    }
    let mut buf = vec![0u8; len?];
    r.read_exact(&mut buf).ok()?;
    serde_json::from_slice(&buf).ok()
}

impl RealProc {
    pub fn spawn(bin: &str, folders: &[url::Url]) -> Option<RealProc> {
        let mut child = Command::new(bin)
            .stdin(Stdio::piped())
            .stdout(Stdio::piped())
            .stderr(Stdio::null())
            .spawn()
            .ok()?;
        let stdin = child.stdin.take()?;
        let stdout = child.stdout.take()?;
        let (tx, rx) = channel();
        std::thread::spawn(move || {
            let mut r = BufReader::new(stdout);
            loop {
                let m = read_message(&mut r);
                let end = m.is_none();
                if tx.send(m).is_err() || end {
                    break;
                }
            }
        });
        let mut p = RealProc {
            child,
            stdin,
            rx,
            dead: None,
        };
        let wf: Vec<Value> = folders.iter().map(|u| json!({"uri": u, "name": "ws"})).collect();
        p.send(&json!({"jsonrpc": "2.0", "id": 0, "method": "initialize", "params": {
            "processId": null, "rootUri": null,
            "capabilities": {"general": {"positionEncodings": ["utf-16"]}},
            "workspaceFolders": wf,
        }}));
        // the initialize response
        loop {
            match p.recv(Duration::from_secs(10)) {
                Some(m) if m.get("id") == Some(&json!(0)) => break,
                Some(_) => continue,
                None => return None,
            }
        }
        p.send(&json!({"jsonrpc": "2.0", "method": "initialized", "params": {}}));
        Some(p)
    }

    pub fn send(&mut self, v: &Value) {
        if self.dead.is_some() {
            return;
        }
        let body = serde_json::to_vec(v).unwrap();
        let head = format!("Content-Length: {}\r\n\r\n", body.len());
        if self.stdin.write_all(head.as_bytes()).and_then(|_| self.stdin.write_all(&body)).and_then(|_| self.stdin.flush()).is_err() {
            self.mark_dead("stdin closed");
        }
    }

    fn mark_dead(&mut self, why: &str) {
        if self.dead.is_none() {
            let status = self.child.wait().map(|s| format!("{s}")).unwrap_or_default();
            self.dead = Some(format!("real process gone ({why}; {status})"));
        }
    }

    pub fn recv(&mut self, timeout: Duration) -> Option<Value> {
        if self.dead.is_some() {
            return None;
        }
        match self.rx.recv_timeout(timeout) {
            Ok(Some(v)) => Some(v),
            Ok(None) => {
                self.mark_dead("stdout closed");
                None
            }
            Err(std::sync::mpsc::RecvTimeoutError::Timeout) => None,
            Err(_) => {
                self.mark_dead("reader ended");
                None
            }
        }
    }

    /// Sends a request and reads messages until its response (or death / 20 s).
    pub fn request(&mut self, id: i32, method: &str, params: Value) -> Vec<Value> {
        self.send(&json!({"jsonrpc": "2.0", "id": id, "method": method, "params": params}));
        self.await_response(id)
    }

    /// Reads messages until the response to request `id` (or death / 20 s).
    pub fn await_response(&mut self, id: i32) -> Vec<Value> {
        let mut out = Vec::new();
        loop {
            match self.recv(Duration::from_secs(20)) {
                Some(m) => {
                    let done = m.get("id") == Some(&json!(id)) && m.get("method").is_none();
                    out.push(m);
                    if done {
                        break;
                    }
                }
                None => {
                    if self.dead.is_none() {
                        self.mark_dead("no response within 20 s");
                    }
                    break;
                }
            }
        }
        out
    }

    /// Everything that arrives within `wait`.
    pub fn drain(&mut self, wait: Duration) -> Vec<Value> {
        let mut out = Vec::new();
        let mut w = wait;
        while let Some(m) = self.recv(w) {
            out.push(m);
            w = Duration::from_millis(50);
        }
        out
    }
}

impl Drop for RealProc {
    fn drop(&mut self) {
        let _ = self.child.kill();
        let _ = self.child.wait();
    }
}
