//! What one simulated run reports, and how a worker aggregates runs.
//! Nothing here draws from a PRNG or reads a clock.

use serde::Serialize;
use serde_json::{json, Value};
use std::collections::{BTreeMap, BTreeSet};

#[derive(Default)]
pub struct Report {
    /// A minimised, PRNG-free replay document when the run violated the property.
    pub violation: Option<Found>,
    /// Digest of everything observable in the run (messages, calls, oracle inputs).
    pub digest: u64,
    /// Digest of the abstract event/schedule sequence.
    pub interleaving: u64,
    /// Abstract states visited.
    pub states: Vec<u64>,
    /// Non-trivial by the property's stated rule.
    pub nontrivial: bool,
    /// Executions of the code under test in this run.
    pub evals: u64,
    /// Oracle evaluations (comparisons actually made).
    pub oracle_checks: u64,
    pub sim_time_ms: u64,
    pub probes: Vec<String>,
    pub fault_kinds: Vec<String>,
    pub sample: Value,
    /// Named counters (e.g. requests sent, generator rejections).
    pub counters: Vec<(String, u64)>,
}

#[derive(Clone, Serialize)]
pub struct Found {
    /// Stable identification of the failing site/history shape (for KNOWN_FINDINGS).
    pub signature: String,
    pub oracle: String,
    pub detail: String,
    /// The scenario, self-contained: replaying it needs no PRNG.
    pub scenario: Value,
}

#[derive(Default)]
pub struct Aggregate {
    pub runs: u64,
    pub evals: u64,
    pub oracle_checks: u64,
    pub sim_time_ms: u64,
    pub nontrivial_digests: BTreeSet<u64>,
    pub interleavings: BTreeSet<u64>,
    pub states: BTreeSet<u64>,
    pub probes: BTreeMap<String, u64>,
    pub fault_kinds: BTreeMap<String, u64>,
    pub counters: BTreeMap<String, u64>,
    pub samples: Vec<(u64, Value)>,
    pub violations: Vec<(u64, Found)>,
    pub run_digests: Vec<(u64, u64)>,
    pub keep_run_digests: bool,
}

impl Aggregate {
    pub fn add(&mut self, run: u64, r: Report) {
        self.runs += 1;
        self.evals += r.evals;
        self.oracle_checks += r.oracle_checks;
        self.sim_time_ms += r.sim_time_ms;
        if r.nontrivial {
            self.nontrivial_digests.insert(r.digest);
        }
        self.interleavings.insert(r.interleaving);
        for s in r.states {
            self.states.insert(s);
        }
        for p in r.probes {
            *self.probes.entry(p).or_default() += 1;
        }
        for p in r.fault_kinds {
            *self.fault_kinds.entry(p).or_default() += 1;
        }
        for (k, v) in r.counters {
            *self.counters.entry(k).or_default() += v;
        }
        if self.samples.len() < 3 && r.nontrivial {
            self.samples.push((run, r.sample));
        }
        if let Some(f) = r.violation {
            // keep at most a handful per signature; the driver picks the lowest run index
            let n = self.violations.iter().filter(|(_, x)| x.signature == f.signature).count();
            if n < 2 {
                self.violations.push((run, f));
            }
        }
        if self.keep_run_digests {
            self.run_digests.push((run, r.digest));
        }
    }

    pub fn to_json(&self) -> Value {
        let hex = |s: &BTreeSet<u64>| s.iter().map(|x| format!("{x:016x}")).collect::<Vec<_>>();
        json!({
            "runs": self.runs,
            "evals": self.evals,
            "oracle_checks": self.oracle_checks,
            "sim_time_ms": self.sim_time_ms,
            "nontrivial_digests": hex(&self.nontrivial_digests),
            "interleavings": hex(&self.interleavings),
            "states": hex(&self.states),
            "probes": self.probes,
            "fault_kinds": self.fault_kinds,
            "counters": self.counters,
            "samples": self.samples.iter().map(|(r, v)| json!({"run": r, "case": v})).collect::<Vec<_>>(),
            "violations": self.violations.iter().map(|(r, f)| json!({"run": r, "found": f})).collect::<Vec<_>>(),
            "run_digests": self.run_digests.iter().map(|(r, d)| json!([r, format!("{d:016x}")])).collect::<Vec<_>>(),
        })
    }
}
