//! Semantic checkpoints for C17 (definition / references mirror the binding
//! relation) and C18 (rename is meaning preserving and never kills the server).
//! The reference model is the generator's binding table, carried inside the
//! scenario so that replay needs no PRNG.

use crate::gen::{BinderKind, ProgramAst, RMod, Role};
use crate::lsp_sim::{Exec, ReqKind};
use crate::pipeline::compile_to_yaml;
use crate::position::{self, Pos};
use serde::{Deserialize, Serialize};
use serde_json::Value;
use std::collections::{BTreeMap, BTreeSet};

pub const BASE: &str = "file:///w/";

#[derive(Serialize, Deserialize, Clone, Debug)]
pub struct SOcc {
    pub start: usize,
    pub end: usize,
    pub role: String,
    pub binder: Option<usize>,
}

#[derive(Serialize, Deserialize, Clone, Debug)]
pub struct SBinder {
    pub kind: String,
    pub module: String,
    pub name: String,
    /// span of the binding occurrence of the name
    pub name_span: (usize, usize),
    /// the window the answer of go-to-definition must lie in: from the end of the
    /// previous statement to the start of the next one
    pub window: (usize, usize),
}

#[derive(Serialize, Deserialize, Clone, Debug)]
pub struct SemTarget {
    pub files: BTreeMap<String, String>,
    pub occs: BTreeMap<String, Vec<SOcc>>,
    pub binders: Vec<Option<SBinder>>,
    /// extra (path, byte offset) positions that are not on identifiers
    pub blanks: Vec<(String, usize)>,
    /// occurrence (path, index) at which the closed rename loop is run for real (C18)
    pub loop_at: Option<(String, usize)>,
    /// module paths of each workspace folder's program (first entry: its main module);
    /// empty = one folder holding every file
    #[serde(default)]
    pub folders: Vec<Vec<String>>,
}

fn role_name(r: Role) -> &'static str {
    match r {
        Role::DeclName => "decl",
        Role::Param => "param",
        Role::RecBinder => "rec",
        Role::QualDef => "qualdef",
        Role::Use => "use",
        Role::QualUse => "qualuse",
    }
}

pub fn build_target(ast: &ProgramAst, mods: &[RMod], rng: &mut crate::prng::Rng) -> SemTarget {
    let mut files = BTreeMap::new();
    let mut occs: BTreeMap<String, Vec<SOcc>> = BTreeMap::new();
    let mut binders: Vec<Option<SBinder>> = vec![None; ast.binders.len()];
    for m in mods {
        files.insert(m.path.clone(), m.text.clone());
        let mut v = Vec::new();
        for o in &m.occs {
            v.push(SOcc {
                start: o.start,
                end: o.end,
                role: role_name(o.role).to_string(),
                binder: o.binder,
            });
            if matches!(o.role, Role::DeclName | Role::Param | Role::RecBinder | Role::QualDef) {
                if let Some(b) = o.binder {
                    let lo = if o.stmt > 0 { m.stmts[o.stmt - 1].1 } else { 0 };
                    let hi = if o.stmt + 1 < m.stmts.len() { m.stmts[o.stmt + 1].0 } else { m.text.len() };
                    binders[b] = Some(SBinder {
                        kind: match ast.binders[b].kind {
                            BinderKind::Decl => "decl",
                            BinderKind::Param => "param",
                            BinderKind::Rec => "rec",
                            BinderKind::Qualifier => "qualifier",
                        }
                        .to_string(),
                        module: m.path.clone(),
                        name: ast.binders[b].name.clone(),
                        name_span: (o.start, o.end),
                        window: (lo, hi),
                    });
                }
            }
        }
        occs.insert(m.path.clone(), v);
    }
    // blank positions: not inside and not adjacent to the end of any identifier or `q.name`
    let mut blanks = Vec::new();
    for m in mods {
        let spans: Vec<(usize, usize)> = {
            let mut v: Vec<(usize, usize)> = Vec::new();
            let mut i = 0;
            while i < m.occs.len() {
                let o = &m.occs[i];
                if o.role == Role::QualUse && i + 1 < m.occs.len() {
                    v.push((o.start, m.occs[i + 1].end));
                    i += 2;
                } else {
                    v.push((o.start, o.end));
                    i += 1;
                }
            }
            v
        };
        let n = 6.min(m.text.len());
        let mut tries = 0;
        let mut got = 0;
        while got < n && tries < 60 {
            tries += 1;
            let off = crate::hist::char_boundary(&m.text, rng.below(m.text.len() + 1));
            if spans.iter().any(|(a, b)| off >= *a && off <= *b) {
                continue;
            }
            blanks.push((m.path.clone(), off));
            got += 1;
        }
    }
    // the occurrence at which the rename loop is closed for real
    let cands: Vec<(String, usize)> = mods
        .iter()
        .flat_map(|m| m.occs.iter().enumerate().filter(|(_, o)| matches!(o.role, Role::Use | Role::DeclName | Role::QualDef) && o.binder.is_some()).map(|(i, _)| (m.path.clone(), i)))
        .collect();
    let loop_at = if cands.is_empty() { None } else { Some(cands[rng.below(cands.len())].clone()) };
    SemTarget {
        files,
        occs,
        binders,
        blanks,
        loop_at,
        folders: Vec::new(),
    }
}

/// Adds a second workspace folder `fb/` whose one-module program imports a module of the
/// first folder's program and uses one of its schema declarations: the two folders then
/// *share* that module (a monorepo with two APIs and common types). The extra use joins
/// the binding table. Returns false when the program offers nothing to share.
pub fn add_shared_folder(t: &mut SemTarget, ast: &ProgramAst, k: usize) -> bool {
    let cands: Vec<(usize, &crate::gen::Binder)> = ast
        .binders
        .iter()
        .enumerate()
        .filter(|(_, b)| b.kind == BinderKind::Decl && b.is_schema && b.module != 0)
        .collect();
    if cands.is_empty() {
        // nothing to share: the second folder's program stands alone
        t.files.insert("fb/main.oal".into(), "res /fbres on get -> <>;\n".into());
        t.occs.insert("fb/main.oal".into(), Vec::new());
        t.folders = vec![ast.modules.iter().map(|m| m.path.clone()).collect(), vec!["fb/main.oal".to_string()]];
        return true;
    }
    let (bid, b) = cands[k % cands.len()];
    let mpath = &ast.modules[b.module].path;
    let mut text = String::new();
    text.push_str("use \"../");
    text.push_str(mpath);
    text.push_str("\" as ");
    let qdef = (text.len(), text.len() + 2);
    text.push_str("sh ;\n/* second folder 😉 */ res /fbres on get -> < ");
    let quse = (text.len(), text.len() + 2);
    text.push_str("sh.");
    let use_ = (text.len(), text.len() + b.name.len());
    text.push_str(&b.name);
    text.push_str(" > ;\n");
    let qb = t.binders.len();
    t.binders.push(Some(SBinder {
        kind: "qualifier".into(),
        module: "fb/main.oal".into(),
        name: "sh".into(),
        name_span: qdef,
        window: (0, text.len()),
    }));
    t.occs.insert(
        "fb/main.oal".into(),
        vec![
            SOcc { start: qdef.0, end: qdef.1, role: "qualdef".into(), binder: Some(qb) },
            SOcc { start: quse.0, end: quse.1, role: "qualuse".into(), binder: Some(qb) },
            SOcc { start: use_.0, end: use_.1, role: "use".into(), binder: Some(bid) },
        ],
    );
    t.files.insert("fb/main.oal".into(), text);
    // folder A: the whole program; folder B: its main, the shared module and whatever that imports
    let a: Vec<String> = ast.modules.iter().map(|m| m.path.clone()).collect();
    let mut reach: Vec<usize> = vec![b.module];
    let mut i = 0;
    while i < reach.len() {
        let m = reach[i];
        i += 1;
        // imports are `use "<relative path>"` statements: resolve them against the module list
        for st in ast.modules[m].stmts.iter().filter(|s| s.kind == crate::gen::StmtKind::Import) {
            if let Some(tok) = st.toks.get(1) {
                let rel = tok.text.trim_matches('"');
                let base = format!("{BASE}{}", ast.modules[m].path);
                if let Ok(u) = url::Url::parse(&base).and_then(|u| u.join(rel)) {
                    if let Some(p) = u.as_str().strip_prefix(BASE) {
                        if let Some(j) = ast.modules.iter().position(|x| x.path == p) {
                            if !reach.contains(&j) {
                                reach.push(j);
                            }
                        }
                    }
                }
            }
        }
    }
    let mut bset = vec!["fb/main.oal".to_string()];
    bset.extend(reach.into_iter().map(|j| ast.modules[j].path.clone()));
    t.folders = vec![a, bset];
    true
}

/// The modules of every folder that contains `path` (all files when there is one folder).
fn scope_of(t: &SemTarget, path: &str) -> BTreeSet<String> {
    if t.folders.is_empty() {
        return t.files.keys().cloned().collect();
    }
    t.folders.iter().filter(|f| f.iter().any(|p| p == path)).flat_map(|f| f.iter().cloned()).collect()
}

/// The main modules of the folders that contain `path`.
fn mains_of(t: &SemTarget, path: &str) -> Vec<String> {
    if t.folders.is_empty() {
        return vec!["main.oal".to_string()];
    }
    t.folders.iter().filter(|f| f.iter().any(|p| p == path)).map(|f| f[0].clone()).collect()
}

fn mains(t: &SemTarget) -> Vec<String> {
    if t.folders.is_empty() {
        vec!["main.oal".to_string()]
    } else {
        t.folders.iter().map(|f| f[0].clone()).collect()
    }
}

/// Compiles the given folders' programs; the documents concatenated.
fn compile_all(files: &BTreeMap<String, String>, mains: &[String]) -> Result<String, crate::pipeline::Failure> {
    let mut out = String::new();
    for m in mains {
        out.push_str(&compile_to_yaml(BASE, files, m)?);
        out.push_str("\n---\n");
    }
    Ok(out)
}

fn pos_in(text: &str, start: usize, end: usize, k: usize) -> Pos {
    // a position strictly inside the identifier: first, middle or last character in turn
    let chars: Vec<usize> = text[start..end].char_indices().map(|(i, _)| start + i).collect();
    let off = match k % 3 {
        0 => chars[0],
        1 => chars[chars.len() / 2],
        _ => chars[chars.len() - 1],
    };
    position::to_pos(text, off)
}

fn loc_of(world: &crate::lsp_sim::World, v: &Value) -> Option<(String, Pos, Pos)> {
    let uri = v.get("uri")?.as_str()?;
    let r = v.get("range")?;
    let p = |x: &Value| Pos {
        line: x["line"].as_u64().unwrap_or(0) as u32,
        character: x["character"].as_u64().unwrap_or(0) as u32,
    };
    Some((world.rel(uri), p(&r["start"]), p(&r["end"])))
}

fn locations(world: &crate::lsp_sim::World, v: &Value) -> Vec<(String, Pos, Pos)> {
    match v {
        Value::Array(a) => a.iter().filter_map(|x| loc_of(world, x)).collect(),
        Value::Object(_) => loc_of(world, v).into_iter().collect(),
        _ => vec![],
    }
}

/// Does `answer` (a definition result) designate binder `b`?
fn designates(t: &SemTarget, world: &crate::lsp_sim::World, answer: &Value, b: &SBinder) -> Result<(), String> {
    let locs = locations(world, answer);
    if locs.len() != 1 {
        return Err(format!("expected one location, got {answer}"));
    }
    let (path, s, e) = &locs[0];
    if *path != b.module {
        return Err(format!("location in {path}, binder lives in {}", b.module));
    }
    let text = &t.files[&b.module];
    let (a, z) = (position::to_offset(text, *s), position::to_offset(text, *e));
    if position::to_pos(text, a) != *s || position::to_pos(text, z) != *e {
        return Err(format!("range {s:?}..{e:?} is not a valid position pair in {path}"));
    }
    if !(a <= b.name_span.0 && z >= b.name_span.1) {
        return Err(format!("range bytes {a}..{z} does not contain the binder's name at {:?}", b.name_span));
    }
    if !(a >= b.window.0 && z <= b.window.1) {
        return Err(format!("range bytes {a}..{z} leaves the binder's statement window {:?}", b.window));
    }
    Ok(())
}

fn at_target(ex: &Exec, t: &SemTarget) -> bool {
    // Every module must also exist on disk: the server asks the file system whether an
    // import exists, so a module that lives only in an editor buffer cannot be imported -
    // a workspace state the generated histories never produce (only a minimisation
    // candidate could) and that the statement's "accepted program" does not cover.
    t.files.iter().all(|(p, text)| ex.client.effective(p) == Some(text) && ex.client.disk.contains_key(p))
}

/// C17 at a checkpoint.
pub fn check_c17(ex: &mut Exec, at: usize, t: &SemTarget) {
    if !at_target(ex, t) {
        ex.stats.count("checkpoint_not_at_target", 1);
        return;
    }
    if compile_all(&t.files, &mains(t)).is_err() {
        ex.stats.count("generator_rejected", 1);
        return;
    }
    ex.stats.count("semantic_checkpoints", 1);
    if t.files.contains_key("fb/main.oal") {
        ex.stats.probe("module_shared_by_two_folders");
    }
    if ex.peer.server.is_stale() {
        ex.stats.probe("request_while_stale");
    }
    let world = ex.world;
    // uses per binder, over all modules
    let mut uses: BTreeMap<usize, BTreeSet<(String, usize, usize)>> = BTreeMap::new();
    for (p, os) in &t.occs {
        for o in os {
            if o.role == "use" {
                if let Some(b) = o.binder {
                    uses.entry(b).or_default().insert((p.clone(), o.start, o.end));
                }
            }
        }
    }
    let mut k = 0usize;
    let paths: Vec<String> = t.occs.keys().cloned().collect();
    for path in paths {
        let text = t.files[&path].clone();
        let os = t.occs[&path].clone();
        for (oi, o) in os.iter().enumerate() {
            k += 1;
            let pos = pos_in(&text, o.start, o.end, k);
            let line_start = text[..o.start].rfind('\n').map(|i| i + 1).unwrap_or(0);
            if !text[line_start..o.start].is_ascii() {
                ex.stats.probe("multibyte_before_identifier_on_line");
            }
            let binder = o.binder.and_then(|b| t.binders.get(b).cloned().flatten().map(|x| (b, x)));
            // ---- definition
            let def = ex.peer.send_request(ReqKind::Definition, &path, pos, None);
            ex.stats.count("requests_checked", 1);
            ex.stats.oracle_checks += 1;
            if !ex.peer.server.alive() {
                let d = ex.peer.server.death.clone().unwrap_or_default();
                ex.fail_pub(at, "server-died-in-request", crate::lsp_sim::death_signature(&d, Some(ReqKind::Definition)), format!("definition at {path}:{pos:?}: {d}"));
                return;
            }
            let def = def.unwrap_or(Value::Null);
            if o.role == "use" {
                if let Some((_, b)) = &binder {
                    match b.kind.as_str() {
                        "param" => ex.stats.probe("use_of_parameter"),
                        "rec" => ex.stats.probe("use_of_rec_binder"),
                        _ => {}
                    }
                    if b.module != path {
                        ex.stats.probe("binder_in_other_module");
                        if !ex.client.open.contains_key(&b.module) {
                            ex.stats.probe("target_in_unopened_module");
                        }
                    }
                    if oi > 0 && os[oi - 1].role == "qualuse" && os[oi - 1].end + 1 == o.start {
                        ex.stats.probe("qualified_use");
                    }
                    if b.name_span.0 > o.start && b.module == path {
                        ex.stats.probe("use_before_definition");
                    }
                    if let Err(e) = designates(t, world, &def, b) {
                        ex.fail_pub(
                            at,
                            "definition-wrong",
                            format!("definition-wrong binder={}", b.kind),
                            format!("definition at {path}:{pos:?} (use of `{}` bound to {} `{}` in {}): {e}", &text[o.start..o.end], b.kind, b.name, b.module),
                        );
                        return;
                    }
                }
            }
            // ---- references
            let refs = ex.peer.send_request(ReqKind::References, &path, pos, None);
            ex.stats.count("requests_checked", 1);
            ex.stats.oracle_checks += 1;
            if !ex.peer.server.alive() {
                let d = ex.peer.server.death.clone().unwrap_or_default();
                ex.fail_pub(at, "server-died-in-request", crate::lsp_sim::death_signature(&d, Some(ReqKind::References)), format!("references at {path}:{pos:?}: {d}"));
                return;
            }
            let refs = refs.unwrap_or(Value::Null);
            let got = locations(world, &refs);
            let is_decl_binder = binder.as_ref().map(|(_, b)| b.kind == "decl").unwrap_or(false);
            if (o.role == "use" || o.role == "decl") && binder.is_some() {
                let (bid, b) = binder.clone().unwrap();
                if is_decl_binder {
                    // exactly the uses bound to the declaration, across all modules
                    // "all modules of the folder": of every folder the requesting document belongs to
                    let scope = scope_of(t, &path);
                    let want: BTreeSet<(String, Pos, Pos)> = uses
                        .get(&bid)
                        .map(|s| {
                            s.iter()
                                .filter(|(p, _, _)| scope.contains(p))
                                .map(|(p, a, z)| {
                                    let tx = &t.files[p];
                                    (p.clone(), position::to_pos(tx, *a), position::to_pos(tx, *z))
                                })
                                .collect()
                        })
                        .unwrap_or_default();
                    let gotset: BTreeSet<(String, Pos, Pos)> = got.iter().cloned().collect();
                    if want.iter().any(|w| w.0 != path) {
                        ex.stats.probe("references_across_modules");
                    }
                    if gotset != want || gotset.len() != got.len() {
                        let missing: Vec<_> = want.difference(&gotset).collect();
                        let extra: Vec<_> = gotset.difference(&want).collect();
                        ex.fail_pub(
                            at,
                            "references-wrong",
                            format!("references-wrong missing={} extra={} dup={}", !missing.is_empty(), !extra.is_empty(), gotset.len() != got.len()),
                            format!("references at {path}:{pos:?} on `{}` (declaration `{}` in {}): missing {missing:?} extra {extra:?} returned {} locations", &text[o.start..o.end], b.name, b.module, got.len()),
                        );
                        return;
                    }
                }
                // inverse law: every reference returned goes back to the binder
                // (at most 12 of them per request, spread evenly: a declaration used hundreds of
                // times would otherwise cost a quadratic number of requests)
                let step = (got.len() / 12).max(1);
                for (rp, rs, _re) in got.iter().step_by(step) {
                    let d = ex.peer.send_request(ReqKind::Definition, rp, *rs, None).unwrap_or(Value::Null);
                    ex.stats.count("requests_checked", 1);
                    ex.stats.oracle_checks += 1;
                    if !ex.peer.server.alive() {
                        return;
                    }
                    if let Err(e) = designates(t, world, &d, &b) {
                        ex.fail_pub(
                            at,
                            "references-not-inverse",
                            format!("references-not-inverse binder={}", b.kind),
                            format!("reference {rp}:{rs:?} returned for `{}` does not go back to its binder: {e}", b.name),
                        );
                        return;
                    }
                }
            }
        }
    }
    // ---- blank positions: empty answers
    for (path, off) in t.blanks.iter() {
        let text = &t.files[path];
        let pos = position::to_pos(text, *off);
        for kind in [ReqKind::Definition, ReqKind::References] {
            let r = ex.peer.send_request(kind, path, pos, None).unwrap_or(Value::Null);
            ex.stats.count("requests_checked", 1);
            ex.stats.count("blank_positions", 1);
            ex.stats.oracle_checks += 1;
            if !ex.peer.server.alive() {
                let d = ex.peer.server.death.clone().unwrap_or_default();
                ex.fail_pub(at, "server-died-in-request", crate::lsp_sim::death_signature(&d, Some(kind)), format!("{kind:?} at {path}:{pos:?}: {d}"));
                return;
            }
            let empty = r.is_null() || r.as_array().map(|a| a.is_empty()).unwrap_or(false);
            if !empty {
                ex.fail_pub(at, "non-identifier-not-empty", format!("non-identifier-not-empty kind={kind:?}"), format!("{kind:?} at {path}:{pos:?} (byte {off}, not an identifier) returned {r}"));
                return;
            }
        }
    }
}

fn edits_of(world: &crate::lsp_sim::World, edits: &Value) -> BTreeMap<String, Vec<(Pos, Pos, String)>> {
    let mut m: BTreeMap<String, Vec<(Pos, Pos, String)>> = BTreeMap::new();
    if let Some(ch) = edits.get("changes").and_then(|c| c.as_object()) {
        for (uri, es) in ch {
            let p = world.rel(uri);
            for e in es.as_array().cloned().unwrap_or_default() {
                let r = &e["range"];
                let q = |x: &Value| Pos {
                    line: x["line"].as_u64().unwrap_or(0) as u32,
                    character: x["character"].as_u64().unwrap_or(0) as u32,
                };
                m.entry(p.clone()).or_default().push((q(&r["start"]), q(&r["end"]), e["newText"].as_str().unwrap_or("").to_string()));
            }
        }
    }
    m
}

/// C18 at a checkpoint: every position where prepareRename offers a range.
pub fn check_c18(ex: &mut Exec, at: usize, t: &SemTarget) {
    if !at_target(ex, t) {
        ex.stats.count("checkpoint_not_at_target", 1);
        return;
    }
    if t.files.contains_key("fb/main.oal") {
        ex.stats.probe("module_shared_by_two_folders");
    }
    if compile_all(&t.files, &mains(t)).is_err() {
        ex.stats.count("generator_rejected", 1);
        return;
    }
    ex.stats.count("semantic_checkpoints", 1);
    if ex.peer.server.is_stale() {
        ex.stats.probe("request_while_stale");
    }
    let world = ex.world;
    let mut k = 0usize;
    let paths: Vec<String> = t.occs.keys().cloned().collect();
    let mut positions: Vec<(String, Pos, Option<SOcc>)> = Vec::new();
    let mut per_binder: BTreeMap<usize, usize> = BTreeMap::new();
    for path in paths.iter() {
        let text = &t.files[path];
        for o in t.occs[path].iter() {
            k += 1;
            // of the hundreds of uses of one declaration only the first eight are renamed from
            if let Some(b) = o.binder {
                let n = per_binder.entry(b).or_default();
                *n += 1;
                if *n > 8 {
                    continue;
                }
            }
            positions.push((path.clone(), pos_in(text, o.start, o.end, k), Some(o.clone())));
        }
    }
    for (path, off) in t.blanks.iter() {
        positions.push((path.clone(), position::to_pos(&t.files[path], *off), None));
    }
    for (n, (path, pos, occ)) in positions.iter().enumerate() {
        let text = &t.files[path];
        let prep = ex.peer.send_request(ReqKind::PrepareRename, path, *pos, None);
        ex.stats.count("requests_checked", 1);
        if !ex.peer.server.alive() {
            let d = ex.peer.server.death.clone().unwrap_or_default();
            ex.fail_pub(at, "server-died-in-request", crate::lsp_sim::death_signature(&d, Some(ReqKind::PrepareRename)), format!("prepareRename at {path}:{pos:?}: {d}"));
            return;
        }
        let prep = prep.unwrap_or(Value::Null);
        if prep.is_null() {
            continue;
        }
        let q = |x: &Value| Pos {
            line: x["line"].as_u64().unwrap_or(0) as u32,
            character: x["character"].as_u64().unwrap_or(0) as u32,
        };
        let (ps, pe) = (q(&prep["start"]), q(&prep["end"]));
        let (a, z) = (position::to_offset(text, ps), position::to_offset(text, pe));
        if a >= z || position::to_pos(text, a) != ps || position::to_pos(text, z) != pe {
            ex.fail_pub(at, "prepare-range-invalid", "prepare-range-invalid".into(), format!("prepareRename at {path}:{pos:?} returned {prep}"));
            return;
        }
        let old = text[a..z].to_string();
        let role = occ.as_ref().map(|o| o.role.clone()).unwrap_or_else(|| "blank".into());
        let bkind = occ
            .as_ref()
            .and_then(|o| o.binder)
            .and_then(|b| t.binders.get(b).cloned().flatten())
            .map(|b| b.kind)
            .unwrap_or_else(|| "none".into());
        ex.stats.probe(&format!("rename_{role}_of_{bkind}"));
        let line_start = text[..a].rfind('\n').map(|i| i + 1).unwrap_or(0);
        if !text[line_start..a].is_ascii() {
            ex.stats.probe("rename_on_multibyte_line");
        }
        // fresh names, half of them with the identifier characters `-` and `$`
        let stem = if n % 2 == 0 { format!("zz_fresh{n}") } else { format!("zz-fr$h{n}") };
        let new_name = if old.starts_with('@') { format!("@{stem}") } else { stem };
        let edits = ex.peer.send_request(ReqKind::Rename, path, *pos, Some(&new_name));
        ex.stats.count("requests_checked", 1);
        ex.stats.count("renames_checked", 1);
        ex.stats.oracle_checks += 1;
        if !ex.peer.server.alive() {
            let d = ex.peer.server.death.clone().unwrap_or_default();
            ex.fail_pub(
                at,
                "server-died-in-request",
                format!("{} role={role} binder={bkind}", crate::lsp_sim::death_signature(&d, Some(ReqKind::Rename))),
                format!("rename at {path}:{pos:?} (`{old}`, {role} of {bkind}): {d}"),
            );
            return;
        }
        let edits = edits.unwrap_or(Value::Null);
        let by_path = edits_of(world, &edits);
        // apply to a copy of the sources
        let mut after = t.files.clone();
        let mut nedits = 0;
        for (p, es) in by_path.iter() {
            let Some(tx) = t.files.get(p) else {
                ex.fail_pub(at, "edit-outside-workspace", "edit-outside-workspace".into(), format!("rename of `{old}` edits unknown document {p}"));
                return;
            };
            if !ex.client.open.contains_key(p) {
                ex.stats.probe("rename_across_unopened_module");
            }
            let mut spans: Vec<(usize, usize, &String)> = Vec::new();
            for (s, e, nt) in es {
                let (x, y) = (position::to_offset(tx, *s), position::to_offset(tx, *e));
                if position::to_pos(tx, x) != *s || position::to_pos(tx, y) != *e || x > y {
                    ex.fail_pub(at, "edit-range-invalid", "edit-range-invalid".into(), format!("rename of `{old}`: edit {s:?}..{e:?} in {p} is not a valid range"));
                    return;
                }
                if tx[x..y] != old {
                    ex.fail_pub(
                        at,
                        "edit-not-on-old-name",
                        format!("edit-not-on-old-name role={role} binder={bkind}"),
                        format!("rename of `{old}` at {path}:{pos:?}: edit {s:?}..{e:?} in {p} covers `{}`", &tx[x..y]),
                    );
                    return;
                }
                if nt != &new_name {
                    ex.fail_pub(at, "edit-wrong-text", "edit-wrong-text".into(), format!("rename of `{old}` to `{new_name}` inserts `{nt}`"));
                    return;
                }
                spans.push((x, y, nt));
            }
            spans.sort();
            for w in spans.windows(2) {
                if w[0].1 > w[1].0 {
                    ex.fail_pub(
                        at,
                        "edits-overlap",
                        format!("edits-overlap role={role} binder={bkind}"),
                        format!("rename of `{old}` at {path}:{pos:?}: overlapping edits in {p} at bytes {:?} and {:?}", (w[0].0, w[0].1), (w[1].0, w[1].1)),
                    );
                    return;
                }
            }
            let mut s = tx.clone();
            for (x, y, nt) in spans.iter().rev() {
                s.replace_range(*x..*y, nt);
                nedits += 1;
            }
            after.insert(p.clone(), s);
        }
        if by_path.len() > 1 {
            ex.stats.probe("rename_edits_several_modules");
        }
        // the expected edit set from the binding table (localises a failure)
        let expected: String = match occ.as_ref().and_then(|o| o.binder) {
            Some(b) if role != "qualuse" => {
                let mut v = Vec::new();
                for (p, os) in &t.occs {
                    for o in os {
                        if o.binder == Some(b) {
                            v.push(format!("{p}@{}", o.start));
                        }
                    }
                }
                format!("binding table expects {} edits: {v:?}", v.len())
            }
            _ => String::new(),
        };
        // judged: the programs of the folders the requesting document belongs to
        let judged = mains_of(t, path);
        let before = compile_all(&t.files, &judged).unwrap_or_default();
        match compile_all(&after, &judged) {
            Err(f) => {
                ex.fail_pub(
                    at,
                    "renamed-program-rejected",
                    format!("renamed-program-rejected role={role} binder={bkind}"),
                    format!("rename of `{old}` → `{new_name}` at {path}:{pos:?} ({nedits} edits) makes the program fail: {:?} {}; {expected}", f.phase, f.message),
                );
                return;
            }
            Ok(y2) => {
                let y2 = if old.starts_with('@') { y2.replace(&new_name[1..], &old[1..]) } else { y2 };
                // byte for byte: both compilations happen at the same location, so even the
                // implicit hash-* component names have to stay what they were
                if y2 != before {
                    ex.fail_pub(
                        at,
                        "renamed-program-differs",
                        format!("renamed-program-differs role={role} binder={bkind}"),
                        format!("rename of `{old}` → `{new_name}` at {path}:{pos:?} ({nedits} edits) changes the emitted document; {expected}"),
                    );
                    return;
                }
            }
        }
    }
    // close the loop for real at one position, then history must still equal fresh
    if let Some((p, i)) = &t.loop_at {
        let o = &t.occs[p][*i];
        let pos = pos_in(&t.files[p], o.start, o.end, at);
        let old = &t.files[p][o.start..o.end];
        let nn = if old.starts_with('@') { "@zz_looped".to_string() } else { "zz_looped".to_string() };
        ex.rename_loop(at, p, pos, &nn);
        if ex.violation.is_none() && ex.discarded.is_none() && ex.peer.server.alive() {
            ex.stats.probe("rename_loop_closed");
            ex.compare_with_fresh(at, &[(ReqKind::References, p.clone(), pos, None)]);
        }
        // "undo": put the buffers back to the checkpoint's texts so the rest of the
        // plan (whose edits were computed against them) stays in step.
        if ex.violation.is_none() && ex.discarded.is_none() && ex.peer.server.alive() {
            for (fp, text) in t.files.iter() {
                if ex.client.open.get(fp).map(|x| &x.0 != text).unwrap_or(false) {
                    ex.apply(
                        at,
                        &crate::lsp_sim::Ev::Change {
                            path: fp.clone(),
                            changes: vec![crate::lsp_sim::Chg {
                                range: None,
                                text: text.clone(),
                            }],
                        },
                    );
                }
            }
        }
    }
}
